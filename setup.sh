#!/bin/sh
# Build everything the checks need, offline, from files on disk only.
set -e
cd "$(dirname "$0")"
export CARGO_NET_OFFLINE=true
unset RUSTFLAGS
cp /repo/Cargo.lock harness/Cargo.lock 2>/dev/null || true
(cd harness && cargo build --release --offline)
# second configurations: HNSW representation (C14) and scalar distance (C38)
(cd harness && CARGO_TARGET_DIR=target-hnsw cargo build --release --offline --no-default-features --features hnsw --bin mvdrive)
(cd harness && CARGO_TARGET_DIR=target-nosimd cargo build --release --offline --no-default-features --bin mvpure)
if [ -f shim/Makefile ]; then make -C shim; fi
echo "setup ok"
