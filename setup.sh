#!/bin/sh
# Build everything the checks need, offline, from files on disk only.
set -e
cd "$(dirname "$0")"
export CARGO_NET_OFFLINE=true
unset RUSTFLAGS
cp /repo/Cargo.lock harness/Cargo.lock 2>/dev/null || true
(cd harness && cargo build --release --offline)
if [ -f shim/Makefile ]; then make -C shim; fi
echo "setup ok"
