"""Shared machinery for ./check: build, sharded monitor runs, report merging, known findings,
evidence files, verdicts. Verdicts are three-valued (held / violated / inconclusive)."""
import hashlib
import json
import os
import shutil
import subprocess
import sys
import time
from concurrent.futures import ThreadPoolExecutor

VERIF = os.path.dirname(os.path.dirname(os.path.abspath(__file__)))
HARNESS = os.path.join(VERIF, "harness")
EVID = os.path.join(VERIF, "evidence")
REPLAYS = os.path.join(EVID, "replays")
KNOWN = os.path.join(VERIF, "known_findings.json")
CORES = os.cpu_count() or 4
ENV = dict(os.environ, CARGO_NET_OFFLINE="true", RUST_BACKTRACE="0")
ENV.pop("RUSTFLAGS", None)  # the harness' own .cargo/config.toml sets --cfg memvid_verif


class Inconclusive(Exception):
    pass


def log(msg):
    print(msg, flush=True)


def scratch_dir(tag):
    base = "/dev/shm" if os.path.isdir("/dev/shm") and os.access("/dev/shm", os.W_OK) else os.path.join(VERIF, "work")
    d = os.path.join(base, f"mvverif-{tag}-{os.getpid()}")
    shutil.rmtree(d, ignore_errors=True)
    os.makedirs(d, exist_ok=True)
    return d


def build(features=None, toolchain=None, extra=None, target_dir=None, bins=None, rustflags=None, subdir="release"):
    """cargo build of the harness against /repo's working tree. Returns the directory of binaries."""
    cmd = ["cargo"]
    if toolchain:
        cmd.append("+" + toolchain)
    cmd += ["build", "--release", "--offline"]
    if features is not None:
        cmd += ["--no-default-features"]
        if features:
            cmd += ["--features", features]
    if bins:
        for b in bins:
            cmd += ["--bin", b]
    if extra:
        cmd += extra
    env = dict(ENV)
    if rustflags:
        env["RUSTFLAGS"] = rustflags  # replaces the config file's flags: must carry --cfg memvid_verif itself
    tdir = target_dir or os.path.join(HARNESS, "target")
    env["CARGO_TARGET_DIR"] = tdir
    t0 = time.time()
    p = subprocess.run(cmd, cwd=HARNESS, env=env, stdout=subprocess.PIPE, stderr=subprocess.STDOUT, text=True)
    if p.returncode != 0:
        tail = "\n".join(p.stdout.splitlines()[-40:])
        raise Inconclusive(f"build failed ({' '.join(cmd)}):\n{tail}")
    log(f"[build] {' '.join(cmd[1:])} ok in {time.time() - t0:.0f}s")
    return os.path.join(tdir, subdir)


def run_monitor(argv, out_path, timeout, env=None, cwd=None):
    """Run one monitor process; returns (report dict | None, note)."""
    e = dict(ENV)
    if env:
        e.update(env)
    try:
        p = subprocess.run(argv + ["--out", out_path], cwd=cwd, env=e, stdout=subprocess.PIPE,
                           stderr=subprocess.PIPE, timeout=timeout)
    except subprocess.TimeoutExpired:
        return None, f"watchdog {timeout}s fired: {' '.join(argv[:3])}"
    if p.returncode != 0 or not os.path.exists(out_path):
        err = p.stderr.decode("utf-8", "replace")[-600:]
        return None, f"monitor exited {p.returncode}: {' '.join(argv[:3])}: {err}"
    try:
        with open(out_path) as f:
            return json.load(f), ""
    except Exception as ex:  # noqa: BLE001
        return None, f"unreadable report {out_path}: {ex}"


def run_sharded(binary, monitor, args, shards, seed, scratch, timeout=1800, env=None):
    """Run `shards` copies with derived seeds in parallel; returns list of reports + notes."""
    def one(i):
        sd = os.path.join(scratch, f"{monitor}-{i}")
        os.makedirs(sd, exist_ok=True)
        argv = [binary, monitor, "--seed", str(seed * 1000 + i), "--scratch", sd] + [str(a) for a in args]
        return run_monitor(argv, os.path.join(scratch, f"{monitor}-{i}.json"), timeout, env=env, cwd=sd)
    with ThreadPoolExecutor(max_workers=min(CORES, shards)) as ex:
        results = list(ex.map(one, range(shards)))
    reports = [r for r, _ in results if r is not None]
    notes = [n for r, n in results if r is None]
    return reports, notes


def load_known():
    try:
        with open(KNOWN) as f:
            return json.load(f).get("findings", [])
    except FileNotFoundError:
        return []


def merge(reports):
    """Merge monitor reports into one coverage summary."""
    cov = {"evaluations": 0, "distinct_nontrivial": 0, "counters": {}, "samples": [], "monitors": []}
    rules, assumptions, violations, inconclusive, required = [], [], [], [], {}
    for r in reports:
        cov["evaluations"] += r.get("evaluations", 0)
        cov["distinct_nontrivial"] += r.get("distinct_nontrivial", 0)
        for k, v in r.get("counters", {}).items():
            if k.endswith("_depth_reached") or k.startswith("max_"):
                cov["counters"][k] = max(cov["counters"].get(k, 0), v)
            else:
                cov["counters"][k] = cov["counters"].get(k, 0) + v
        if len(cov["samples"]) < 6:
            cov["samples"] += r.get("samples", [])[: max(1, 6 - len(cov["samples"]))]
        m = r.get("monitor", "?")
        if m not in cov["monitors"]:
            cov["monitors"].append(m)
        if r.get("rule") and r["rule"] not in rules:
            rules.append(r["rule"])
        for a in r.get("assumptions", []):
            if a not in assumptions:
                assumptions.append(a)
        for v in r.get("violations", []):
            v = dict(v)
            v["monitor"] = m
            v["seed"] = r.get("seed")
            violations.append(v)
        inconclusive += r.get("inconclusive", [])
        for c in r.get("required_counters", []):
            required[(m, c)] = required.get((m, c), 0) + r.get("counters", {}).get(c, 0)
    cov["rule"] = " || ".join(rules)
    return cov, assumptions, violations, inconclusive, required


def finish(pid, tier, seed, level, reports, notes, t0, extra_cov=None, extra_assumptions=None, min_eval=1):
    """Apply known findings, write evidence + replay files, print verdict lines, return exit code."""
    cov, assumptions, violations, inconclusive, required = merge(reports)
    if extra_cov:
        for k, v in extra_cov.items():
            cov[k] = v
    if extra_assumptions:
        assumptions += [a for a in extra_assumptions if a not in assumptions]
    known = [k for k in load_known() if k.get("property") == pid]
    known_keys = {k["key"]: k for k in known if k.get("status") == "known"}
    os.makedirs(REPLAYS, exist_ok=True)
    new, seen_known = [], {}
    for v in violations:
        if v["key"] in known_keys:
            seen_known.setdefault(v["key"], v)
        else:
            new.append(v)
    # the per-key totals live in counters as violations[key]
    totals = {k[len("violations["):-1]: n for k, n in cov["counters"].items() if k.startswith("violations[")}
    for key, v in sorted(seen_known.items()):
        log(f"KNOWN-FINDING: property={pid} {key} — {known_keys[key].get('what', v['what'])} (seen {totals.get(key, 1)}x this run)")
    exit_code = 0
    written = set()
    for v in new:
        h = hashlib.sha1(v["key"].encode()).hexdigest()[:10]
        path = os.path.join(REPLAYS, f"{pid}-{h}.json")
        if path not in written:
            with open(path, "w") as f:
                json.dump({"property": pid, "key": v["key"], "what": v["what"], "monitor": v.get("monitor"),
                           "seed": v.get("seed"), "tier": tier, "detail": v["detail"]}, f, indent=1)
            written.add(path)
            log(f"VIOLATION property={pid} replay={path}")
            log(f"  key={v['key']}  {v['what'][:300]}")
        exit_code = 1
    for n in notes:
        log(f"INCONCLUSIVE property={pid} case=monitor-process reason={n[:300]}")
    for inc in inconclusive[:10]:
        log(f"INCONCLUSIVE property={pid} case={json.dumps(inc)[:200]}")
    # minimum evidence
    lacking = [f"{m}:{c}" for (m, c), n in required.items() if n == 0]
    starved = cov["evaluations"] < min_eval or cov["distinct_nontrivial"] < 2 or not reports
    cov["inconclusive"] = len(inconclusive) + len(notes)
    cov["known_findings_seen"] = {k: totals.get(k, 1) for k in seen_known}
    cov["required_counters_unmet"] = lacking
    if not cov["samples"]:
        cov["samples"] = [{"note": "no sample recorded"}]
    evidence = {
        "property_id": pid, "tier": tier, "seed": seed, "level": level, "coverage": cov,
        "assumptions": assumptions, "wall_s": round(time.time() - t0, 2),
        "violations": len({v["key"] for v in new}),
    }
    os.makedirs(EVID, exist_ok=True)
    with open(os.path.join(EVID, f"{pid}.json"), "w") as f:
        json.dump(evidence, f, indent=1, sort_keys=True)
    if exit_code == 0 and (starved or lacking):
        log(f"INCONCLUSIVE property={pid} run reason=minimum evidence not reached "
            f"(evaluations={cov['evaluations']}, distinct={cov['distinct_nontrivial']}, unmet={lacking}, notes={len(notes)})")
        return 3
    verdict = "violated" if exit_code else "held"
    log(f"[{pid}] {verdict}: {cov['evaluations']} evaluations, {cov['distinct_nontrivial']} distinct non-trivial, "
        f"{len(seen_known)} known finding(s), {cov['inconclusive']} inconclusive case(s), {evidence['wall_s']}s")
    return exit_code
