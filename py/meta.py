"""Manifest texts per property: what assurance the check gives, what it assumes, the deciding method."""

ENGINES = [
    {"name": "E5 pure-function monitors", "path": "harness/src/pure, harness/src/bin/mvpure.rs",
     "serves_properties": ["C05", "C27", "C30", "C31", "C32", "C33", "C34", "C35", "C36", "C37", "C38", "C39"],
     "kind_free_text": "generators + deterministic oracles over the real functions (public API or cfg(memvid_verif) wrappers); same binary runs under Miri in the thorough tier"},
    {"name": "E1 history driver", "path": "harness/src/drive, harness/src/bin/mvdrive.rs",
     "serves_properties": ["C01", "C06", "C07", "C08", "C13", "C14", "C15", "C18", "C19", "C24", "C25", "C26", "C27", "C40", "C42"],
     "kind_free_text": "random/replayed operation histories against a real Memvid with a sequential reference model and online monitors after every call"},
    {"name": "E4 corpus/query generator + reference evaluator", "path": "harness/src/drive/search.rs, harness/src/pure/query.rs",
     "serves_properties": ["C09", "C10", "C11", "C12", "C16", "C28"],
     "kind_free_text": "controlled-vocabulary corpora, random query ASTs, independent boolean evaluator over the stored search text"},
    {"name": "E2 I/O recorder + crash simulator", "path": "shim/iorec.c, py/crashsim.py, harness/src/probe.rs",
     "serves_properties": ["C02", "C03", "C04"],
     "kind_free_text": "LD_PRELOAD syscall recorder, offline replay of every prefix / fault choice into crash images, probe of each image against the reference model"},
    {"name": "E3 file fault injector + probe", "path": "py/faults.py, harness/src/probe.rs",
     "serves_properties": ["C20", "C21", "C22", "C29"],
     "kind_free_text": "structure-aware mutants of committed files exercised in subprocesses; exit status and observation diff are the oracle; ASan build in thorough"},
    {"name": "E6 two-process scheduler", "path": "py/sched.py, harness/src/drive/worker.rs",
     "serves_properties": ["C17"],
     "kind_free_text": "two real writer processes stepped through enumerated interleavings; offline checker over the call/return history"},
]

NOT_APPLICABLE = {}


def _m(engine, technique, text, note):
    return {"engine": engine, "technique": technique, "text": text, "note": note}


_HIST = ("Random histories (create, put in 13 payload classes sized to fill / wrap / grow the 64 KiB log, update with and without payload, delete, "
         "refused calls, commit, drop+reopen with pending records, vacuum, doctor, batch mode) run against a real Memvid; a sequential reference "
         "model is reconciled after every call (nothing or everything pending becomes visible) and compared frame by frame at sampled points, "
         "after the final commit, after reopen and through a read-only handle. ")

META = {
    "C01": _m("E1", "online reference-model monitor over random operation histories on the real Memvid",
              _HIST + "Judged: frame count, per-frame uri/status/role/parent/supersede links/timestamp, commit and reopen succeed, refused calls stay refused.",
              "Crash-free executions only. Auto-checkpoint timing is not predicted, only its all-or-nothing effect. A history stops at its first violation."),
    "C06": _m("E1", "identity monitor inside the history driver: next_frame_id() prediction + first-seen fingerprint per id",
              _HIST + "Judged: next_frame_id() sampled before every put/update equals the id the document gets; frame_by_id(i).id == i; uri, stored checksum, timestamp (and stored length while active) first seen for an id never change across commit, reopen, delete, update, vacuum and doctor.",
              "Vacuum legitimately drops the payload of inactive frames, so the stored length is part of the identity only while a frame is active."),
    "C07": _m("E1", "content monitor inside the history driver: canonical payload, blob reader and stored checksum vs the bytes that were put",
              _HIST + "Judged per active frame: stored whole => frame_canonical_payload == P, blob_reader bytes == P, blake3(file[offset..+len]) == checksum; chunked => document payload == concatenation of its chunk frames (and == normalized text for unstructured text).",
              "Whether a put is chunked is discovered from the real frame table (and from preview_chunks for UTF-8), not predicted."),
    "C13": _m("E1", "differential monitor: search_vec on the real Memvid vs an f64 brute-force reference, before and after reopen",
              "Random embedding sets (dimension 1..64, up to 600 vectors with duplicates, zero vectors, +-1e18 and tie-heavy grids) put through the public API; per query: hit count = min(k, m), distances non-decreasing and equal to the L2 definition, no omitted frame clearly closer than the last hit, wrong-dimension queries rejected, identical ids and distance bits after close and reopen (read-write and read-only).",
              "Default (exact) configuration only. Ties are not ordered; the closer-frame test uses a relative 1e-5 guard against f32 rounding."),
    "C14": _m("E1", "membership monitor: findable set, stats().vector_count, frame_embedding and self-queries vs the model's set of active embedded frames, in two build configurations",
              "Histories of embedded and plain puts, updates with/without a new embedding and with/without payload, deletes, up to a target number of active embedded frames; checked after commit, reopen, doctor(rebuild_vec_index), vacuum and a second reopen, in the default build and in the hnsw_bench build with sizes on both sides of the 1000-vector switch.",
              "Unique embeddings per put. In large histories the per-frame checks are sampled (60 frames per stage)."),
    "C15": _m("E1", "timeline monitor against the reference model after every commit / reopen / doctor and with the time index absent",
              "Histories with explicit random timestamps (negative, equal, i64 extremes), plain and chunked documents, extracted images with a parent, deletes and updates. Judged: every active Document frame exactly once, no duplicates, entries carry the frame's own timestamp, (timestamp, id) order, reverse is the exact reverse, since/until are inclusive restrictions of the unlimited result, limit n is a prefix.",
              "Non-document roles need not be listed, but if listed they must respect the order. Reference = the model's frame table, not the time index."),
    "C19": _m("E1", "directory-listing monitor after every API call of the history driver; forbidden-sidecar probes",
              _HIST + "Judged: after every call (Ok or Err) the directory holds exactly the .mv2 file; for each forbidden sidecar name create/open/open_read_only/doctor/verify must refuse and leave the directory unchanged.",
              "$TMPDIR (Tantivy scratch) is pointed outside the directory. Files that exist only during a call are C02's concern."),
    "C05": _m("E5", "reference-model monitor over the real EmbeddedWal: bounded-exhaustive op sequences with state de-duplication + random histories; Miri in thorough",
              "Every operation sequence up to the stated depth over regions 96..512 bytes (boundary payload sizes relative to the head) is executed on a real file and compared, after every step, with a list model of the records appended since the last checkpoint; random histories cover 4 KiB / 64 KiB / 1 MiB regions. A loss, resurrection, reorder or wrong error kind is reported with the history that produces it.",
              "Held on the executed sequences only. The systematic part is complete for its alphabet and depth, not for all payload sizes. Scratch file on tmpfs; durability of the writes is C03's concern."),
    "C30": _m("E5", "round-trip and single-field-mutation monitor over the real codecs; Miri in thorough",
              "Random valid headers, footers, TOCs (random frames and manifests) and time-index lists are encoded and decoded back and must compare equal; then exactly one field the property names (magic, version, spec bytes, wal_offset<4096, wal_size=0, footer length, TOC trailing bytes, any TOC content byte vs checksum, time-index magic/count/length/order) is corrupted and decode must fail rather than return a different value.",
              "Random sampling of the value space; TOCs are built from public structs, optional sub-manifests that need model files (CLIP, replay) stay empty."),
    "C31": _m("E5", "differential monitor: real footer scan vs naive downward reference scan on adversarial byte strings; Miri in thorough",
              "Byte strings rich in magic prefixes with planted valid, wrong-hash, oversized, zero-length, overlapping and truncated footers; offset, generation and TOC bytes must equal those of a naive scan from the highest offset down.",
              "Inputs up to a few KiB. A zero-length TOC counts as invalid in the reference as in the code (no encodable TOC is empty)."),
    "C32": _m("E5", "differential monitor: crate parser+evaluator (via cfg hook) vs independent reference evaluator on random ASTs; subprocess probes for deep nesting; Miri in thorough",
              "Token soup must parse or fail with InvalidQuery without panicking; nesting depths 10..10^6 of four shapes run in their own process so a stack overflow is observed as a signal; random ASTs printed with minimal parentheses are evaluated by the crate and by a reference evaluator written from the property text on random frames.",
              "Wildcards are excluded from the semantic part (the property does not define them). Reference = substring word/phrase match, case-insensitive field terms."),
    "C33": _m("E5", "invariant monitor over normalize_text / truncate_at_grapheme_boundary with unicode-normalization and unicode-segmentation as independent judges; Miri in thorough",
              "Random strings from a Unicode pool (combining marks, ZWJ emoji, CR/LF/TAB, NBSP and other White_Space, compatibility forms, controls) x limits: NFKC, no controls but newline, trimmed, no space runs or blank lines, byte limit with the first-grapheme exception, grapheme-boundary truncation, fixed point when untruncated.",
              "Pool-driven generation: code points outside the pool are not exercised."),
    "C34": _m("E5", "invariant monitor over the crate's chunk planner (cfg hook) on random structured/unstructured texts",
              "Unstructured texts: manifest ranges contiguous from 0 to the character count, non-empty, chunk texts concatenate to the normalized text. Structured texts (tables, code fences): every non-blank line of the normalized text occurs in some chunk modulo whitespace (the chunker re-renders tables), no empty chunk.",
              "Classification structured/unstructured uses the crate's own public detect_structure, as the planner does."),
    "C35": _m("E5", "invariant monitor over compute_snippet_slices (cfg hook) with catch_unwind; Miri in thorough",
              "Random Unicode texts x occurrence lists (sorted, unsorted, overlapping, out of bounds up to usize::MAX) x windows x maxima: no panic; slices non-empty, inside the text, on char boundaries, strictly increasing, non-overlapping, at most max(1,max); slicing works.",
              "Harness is built with overflow checks on (as the repository's own test profile is), so arithmetic overflow panics are visible."),
    "C36": _m("E5", "metamorphic monitor over mask_pii / contains_pii",
              "Strings assembled from PII-like fragments: contains_pii(mask_pii(s)) is false, masking twice equals masking once, text without detected PII is unchanged. A residual detection is keyed by the placeholder a second pass adds.",
              "Fragment-based generation around the regexes' boundaries; not a proof over all strings."),
    "C37": _m("E5", "invariant monitor over find_adaptive_cutoff / normalize_scores; Miri in thorough",
              "Random score lists (sorted/unsorted, ties, +-3e38, subnormals) x every strategy x random parameters: cut-off within [min(min_results,n), n]; normalized scores in [0,1] with the maximum at 1; absolute/relative threshold semantics on the list the strategy sees.",
              "NaN excluded as the property says. Relative-threshold semantics judged on descending lists only (top score = first score)."),
    "C38": _m("E5", "differential monitor vs f64 scalar reference in two build configurations (simd on / off); Miri in thorough",
              "All lengths 0..100, one magnitude class per vector so that a dropped lane exceeds the tolerance: |simd - reference| <= 2e-6*sqrt(n)*reference + 1e-18, bit-exact symmetry, d(a,a)=0. Run in the default build and in a --no-default-features build.",
              "Tolerance is a stated rounding bound, not exact equality. x86_64 only."),
    "C39": _m("E5", "no-false-negative monitor for the sketch term filter; write/read round-trip of random sketch tracks; Miri in thorough",
              "Every token the sketch tokenizer yields for a random text must pass the text's term filter; tracks with dense, sparse and out-of-order frame ids are written and read back and compared on the fields the variant's format stores.",
              "For the 32-byte variant only frame id, simhash, term filter and (zero-padded) top terms are compared: the format has no room for the rest."),
}
