#!/usr/bin/env python3
"""Shrink a recorded mvdrive history while it still produces the same violation key.
usage: py/minimize.py <replay.json> [--property C01] [--mode replay]  -> prints the reduced history"""
import json
import os
import subprocess
import sys
import tempfile

VERIF = os.path.dirname(os.path.dirname(os.path.abspath(__file__)))
BIN = os.path.join(VERIF, "harness", "target", "release", "mvdrive")


def run(ops, prop, mode, want):
    with tempfile.TemporaryDirectory(dir="/dev/shm") as d:
        p = os.path.join(d, "h.json")
        json.dump({"history": ops}, open(p, "w"))
        out = os.path.join(d, "o.json")
        env = dict(os.environ, TMPDIR=d)
        try:
            subprocess.run([BIN, mode, "--property", prop, "--replay", p, "--scratch", d, "--out", out], env=env,
                           stdout=subprocess.DEVNULL, stderr=subprocess.DEVNULL, timeout=300)
            keys = {v["key"] for v in json.load(open(out)).get("violations", [])}
        except Exception:  # noqa: BLE001
            return False
        return want in keys


def main():
    rec = json.load(open(sys.argv[1]))
    prop = sys.argv[sys.argv.index("--property") + 1] if "--property" in sys.argv else rec.get("property", "C01")
    mode = sys.argv[sys.argv.index("--mode") + 1] if "--mode" in sys.argv else rec["detail"].get("replay_mode", "replay")
    want = rec["key"]
    ops = [o for o in rec["detail"]["history"] if not str(o.get("op", "")).startswith("final")]
    assert run(ops, prop, mode, want), "does not reproduce"
    n = 2
    while len(ops) >= 2:
        chunk = max(1, len(ops) // n)
        reduced = False
        for i in range(1, len(ops), chunk):  # never drop op 0 (create)
            cand = ops[:i] + ops[i + chunk:]
            if len(cand) < len(ops) and run(cand, prop, mode, want):
                ops = cand
                n = max(n - 1, 2)
                reduced = True
                break
        if not reduced:
            if chunk == 1:
                break
            n = min(n * 2, len(ops))
    print(json.dumps({"property": prop, "key": want, "detail": {"mode": "drive", "replay_mode": mode, "history": ops}}, indent=1))


if __name__ == "__main__":
    main()
