#!/usr/bin/env python3
"""Regenerate /verif/MANIFEST.json from the property table (py/props.py + py/meta.py)."""
import json
import os
import subprocess
import sys

sys.path.insert(0, os.path.dirname(os.path.abspath(__file__)))
import meta  # noqa: E402
import props  # noqa: E402

VERIF = os.path.dirname(os.path.dirname(os.path.abspath(__file__)))


def hook_commits():
    try:
        out = subprocess.run(["git", "-C", "/repo", "log", "--format=%h %s"], stdout=subprocess.PIPE, text=True).stdout
        return [l.split()[0] for l in out.splitlines() if l.split(" ", 1)[1].startswith("verif hooks:")]
    except Exception:  # noqa: BLE001
        return []


def main():
    all_ids = [json.loads(l)["id"] for l in open(os.path.join(VERIF, "properties.jsonl")) if l.strip()]
    checks = []
    for pid in all_ids:
        if pid not in props.PROPS:
            continue
        m = meta.META[pid]
        checks.append({
            "property_id": pid,
            "quick_cmd": f"./check {pid} --tier quick",
            "thorough_cmd": f"./check {pid} --tier thorough",
            "evidence_file": f"/verif/evidence/{pid}.json",
            "replay_cmd_template": f"./check {pid} --replay {{path}}",
            "engine": m["engine"],
            "level_claimed": {"category": props.PROPS[pid]["level"], "text": m["text"], "design_ref": f"DESIGN.md §3 {pid}"},
            "level_note": m["note"],
            "technique": m["technique"],
        })
    na = [{"property_id": pid, "reason": meta.NOT_APPLICABLE.get(pid, "check not built yet in this round; see DESIGN.md")}
          for pid in all_ids if pid not in props.PROPS]
    manifest = {
        "version": 1,
        "setup_cmd": "cd /verif && ./setup.sh",
        "hooks": {
            "guard": "--cfg memvid_verif",
            "enable": "harness/.cargo/config.toml sets rustflags = [\"--cfg\", \"memvid_verif\"]; the harness depends on memvid-core by path = /repo, so every check rebuilds from /repo's working tree",
            "baseline_off_cmd": "cd /repo && cargo test --workspace --no-fail-fast --offline",
            "source_commits": hook_commits(),
            "add_only": True,
        },
        "engines": meta.ENGINES,
        "checks": checks,
        "not_applicable": na,
        "notes": "Technique family: runtime monitoring and sanitizers. Every check exits 0 (held on what was explored; KNOWN-FINDING lines for defects listed in known_findings.json), 1 (VIOLATION line, replay file under evidence/replays/) or 3 (inconclusive: build failed or minimum evidence not reached). VERIF_SEED seeds every random choice.",
    }
    with open(os.path.join(VERIF, "MANIFEST.json"), "w") as f:
        json.dump(manifest, f, indent=1)
    print(f"MANIFEST.json: {len(checks)} checks, {len(na)} not_applicable")


if __name__ == "__main__":
    main()
