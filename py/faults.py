"""Engine E3 — file fault injection: corpus files, structure-aware mutants, supervised probe processes.

C20 (corruption is detected, never served silently), C22 (no panic / hang on arbitrary bytes) and
C21 (doctor) share the corpus, the mutant generators and the supervisor; each has its own judge."""
import json
import os
import random
import shutil
import subprocess
import threading
import time
from concurrent.futures import ThreadPoolExecutor

import common as C
import crashsim as X


def _report(monitor, seed, rule):
    return {"monitor": monitor, "seed": seed, "evaluations": 0, "distinct_nontrivial": 0, "counters": {}, "samples": [], "rule": rule,
            "violations": [], "inconclusive": [], "required_counters": [], "assumptions": []}


def _count(rep, k, n=1):
    rep["counters"][k] = rep["counters"].get(k, 0) + n


def _violation(rep, key, what, detail):
    _count(rep, f"violations[{key}]")
    if sum(1 for v in rep["violations"] if v["key"] == key) < 2:
        rep["violations"].append({"key": key, "what": what, "detail": detail})


# ------------------------------------------------------------------------------------------ corpus

def make_corpus(bindir, seed, ops, wd, profile="corpus"):
    """One committed, closed memory produced by a deterministic history. Returns (path, states)."""
    d = os.path.join(wd, "mem")
    tmp = os.path.join(wd, "tmp")
    for p in (d, tmp):
        shutil.rmtree(p, ignore_errors=True)
        os.makedirs(p)
    states = os.path.join(wd, "states.json")
    argv = [os.path.join(bindir, "mvdrive"), "runhist", "--seed", str(seed), "--ops", str(ops), "--dir", d, "--name", "mem.mv2", "--states", states,
            "--profile", profile, "--final-commit", "--out", os.path.join(wd, "rep.json")]
    p = subprocess.run(argv, env=dict(C.ENV, TMPDIR=tmp), stdout=subprocess.PIPE, stderr=subprocess.PIPE, timeout=900)
    path = os.path.join(d, "mem.mv2")
    if p.returncode != 0 or not os.path.exists(path):
        raise C.Inconclusive(f"corpus history failed ({p.returncode}): {p.stderr.decode('utf-8', 'replace')[-300:]}")
    with open(states) as f:
        st = json.load(f)
    shutil.rmtree(tmp, ignore_errors=True)
    return path, st


def layout(bindir, path):
    r = subprocess.run([os.path.join(bindir, "mvprobe"), "raw", path], stdout=subprocess.PIPE, stderr=subprocess.PIPE, env=C.ENV, timeout=120)
    return json.loads(r.stdout.decode().strip().splitlines()[-1])


def regions_of(lay, n):
    """Ordered (name, start, end) list incl. gaps; payload regions carry their encoding."""
    out = [("header", 0, 4096)]
    h = lay.get("header") or {}
    if h:
        out.append(("wal", h["wal_offset"], h["wal_offset"] + h["wal_size"]))
    for f in lay.get("frames", []):
        if f["len"]:
            out.append((f"payload:{f['enc']}", f["off"], f["off"] + f["len"]))
    reg = lay.get("regions") or {}
    for name in ("time_index", "lex", "vec", "memories", "mesh", "sketch"):
        if reg.get(name):
            o, l = reg[name]
            out.append((name, o, o + l))
    for o, l in reg.get("tantivy_segments") or reg.get("lex_segments") or []:
        out.append(("tantivy_segments", o, o + l))
    ft = lay.get("footer") or {}
    if ft:
        out.append(("toc", ft["toc_offset"], ft["footer_offset"]))
        out.append(("footer", ft["footer_offset"], n))
    out.sort(key=lambda r: (r[1], r[2]))
    seen, res, pos = set(), [], 0
    for name, s, e in out:
        if (s, e) in seen or e <= s:
            continue
        seen.add((s, e))
        if s > pos:
            res.append(("unmapped", pos, s))
        res.append((name, s, e))
        pos = max(pos, e)
    if pos < n:
        res.append(("unmapped", pos, n))
    return res


def region_at(regs, off):
    for name, s, e in regs:
        if s <= off < e:
            return name
    return "beyond-eof"


# ------------------------------------------------------------------------------------------ mutants

def flips_for_region(data, name, s, e, rng, budget, exhaustive):
    """Single-byte flips inside one region. Non-zero bytes first (zero runs are mostly padding)."""
    offs = list(range(s, e))
    nonzero = [o for o in offs if data[o] != 0]
    zero = [o for o in offs if data[o] == 0]
    pats = [0x01, 0x80, 0xFF]
    out = []
    if exhaustive:
        for o in nonzero:
            for x in pats:
                out.append({"kind": "flip", "off": o, "xor": x, "region": name})
        stride = max(1, len(zero) // 400)
        for o in zero[::stride]:
            out.append({"kind": "flip", "off": o, "xor": rng.choice(pats), "region": name})
    else:
        pick = rng.sample(nonzero, min(len(nonzero), budget))
        for o in pick:
            out.append({"kind": "flip", "off": o, "xor": rng.choice(pats), "region": name})
        for o in rng.sample(zero, min(len(zero), max(2, budget // 8))):
            out.append({"kind": "flip", "off": o, "xor": rng.choice(pats), "region": name})
    return out


def structural_mutants(data, regs, rng, n_random):
    """Zeroed ranges aligned to structures, truncations at every structure boundary +-1 and random offsets."""
    out = []
    n = len(data)
    for name, s, e in regs:
        if name == "unmapped" and e - s > 4096:
            continue
        ln = e - s
        out.append({"kind": "zero", "off": s, "len": ln, "region": name, "shape": "whole-region"})
        out.append({"kind": "zero", "off": s, "len": min(16, ln), "region": name, "shape": "first-16"})
        out.append({"kind": "zero", "off": max(s, e - 16), "len": min(16, ln), "region": name, "shape": "last-16"})
        if ln > 64:
            a = rng.randrange(s, e - 8)
            out.append({"kind": "zero", "off": a, "len": rng.randrange(1, min(512, e - a)), "region": name, "shape": "random-range"})
            a = rng.randrange(s, e - 8)
            out.append({"kind": "fill", "off": a, "len": rng.randrange(1, min(256, e - a)), "value": 0xFF, "region": name, "shape": "random-range-ff"})
        for cut in (s - 1, s, s + 1, e - 1):
            if 0 <= cut < n:
                out.append({"kind": "trunc", "len": cut, "region": name, "shape": f"truncate-at-{name}"})
    for _ in range(n_random):
        out.append({"kind": "trunc", "len": rng.randrange(0, n), "region": "any", "shape": "truncate-random"})
        a = rng.randrange(0, n - 1)
        name, rs, re_ = next((r for r in regs if r[1] <= a < r[2]), ("?", a, n))
        out.append({"kind": "zero", "off": a, "len": rng.randrange(1, max(2, min(4096, re_ - a))), "region": name, "shape": "random-range"})
    out.append({"kind": "trunc", "len": n + 1, "region": "eof", "shape": "one-byte-appended"})
    out.append({"kind": "trunc", "len": n + 4096, "region": "eof", "shape": "zeros-appended"})
    return out


def length_field_mutants(data, regs, rng, per_region):
    """Little-endian u32/u64 edits at structure starts (where headers and length prefixes live) and at random positions."""
    out = []
    vals64 = [0, 1, 2 ** 31, 2 ** 32 - 1, 2 ** 63, 2 ** 64 - 1]
    n = len(data)
    for name, s, e in regs:
        if name == "unmapped":
            continue
        positions = list(range(s, min(e - 8, s + 96), 4))
        if e - s > 160:
            positions += [rng.randrange(s, e - 8) for _ in range(per_region)]
        for pos in positions[: 24 + per_region]:
            cur = int.from_bytes(data[pos:pos + 8], "little")
            for v in (rng.sample(vals64, 2) + [(cur + 1) % 2 ** 64, (cur - 1) % 2 ** 64, (n - pos) % 2 ** 64]):
                out.append({"kind": "set", "off": pos, "bytes": int(v).to_bytes(8, "little").hex(), "region": name, "shape": "u64-field"})
            cur32 = int.from_bytes(data[pos:pos + 4], "little")
            for v in (0, 2 ** 31, 2 ** 32 - 1, (cur32 + 1) % 2 ** 32):
                out.append({"kind": "set", "off": pos, "bytes": int(v).to_bytes(4, "little").hex(), "region": name, "shape": "u32-field"})
    return out


# ------------------------------------------------------------------------------------------ supervisor

# Per probe process: 12 GiB address space, no core files, files capped at 1 GiB (scratch is tmpfs, i.e. RAM: a repair
# that extends a 100 KiB input to a header-declared 4 GiB must fail with EFBIG instead of eating memory). Set through
# the shell rather than preexec_fn (the supervisor is multi-threaded).
LIMITED = ["/bin/sh", "-c", "trap '' XFSZ; ulimit -c 0; ulimit -f 2097152; ulimit -v 12582912; exec \"$@\"", "sh"]
# AddressSanitizer reserves terabytes of address space for its shadow memory: no ulimit -v there
LIMITED_ASAN = ["/bin/sh", "-c", "trap '' XFSZ; ulimit -c 0; ulimit -f 2097152; exec \"$@\"", "sh"]


def run_plan(bindir, mode, base, mutants, scratch, workers=None, stall_s=60, binary="mvprobe", extra_env=None, extra_args=None, wrapper=None, limited=None):
    """Run every mutant through `mvprobe fault`. Returns (results by id, baseline, deaths).
    A process that dies or stalls is restarted after the mutant that was in flight; that mutant's
    result is {"died": {...}} (signal / exit code / stall) with the API call that was running."""
    workers = workers or C.CORES
    for i, m in enumerate(mutants):
        m["id"] = i
    shards = [mutants[i::workers] for i in range(workers)]
    results, baseline, deaths = {}, {}, []
    lock = threading.Lock()

    def work(w):
        todo = list(shards[w])
        wd = os.path.join(scratch, f"w{w}")
        os.makedirs(wd, exist_ok=True)
        tmp = os.path.join(wd, "tmp")
        os.makedirs(tmp, exist_ok=True)
        rounds = 0
        while todo and rounds < 400:
            rounds += 1
            plan = os.path.join(wd, "plan.jsonl")
            res = os.path.join(wd, "res.jsonl")
            with open(plan, "w") as f:
                for m in todo:
                    f.write(json.dumps(m) + "\n")
            if os.path.exists(res):
                os.remove(res)
            env = dict(C.ENV, TMPDIR=tmp)
            if extra_env:
                env.update(extra_env)
            errf = open(os.path.join(wd, "stderr.txt"), "wb")
            argv = [os.path.join(bindir, binary), "fault", "--mode", mode, "--base", base, "--plan", plan, "--results", res, "--scratch", wd]
            argv += extra_args or []
            p = subprocess.Popen((limited or LIMITED) + (wrapper or []) + argv, env=env, stdout=subprocess.DEVNULL, stderr=errf)
            last_size, last_change, stalled = -1, time.time(), False
            while p.poll() is None:
                time.sleep(0.2)
                try:
                    sz = os.path.getsize(res)
                except OSError:
                    sz = 0
                if sz != last_size:
                    last_size, last_change = sz, time.time()
                elif time.time() - last_change > stall_s:
                    stalled = True
                    p.kill()
                    p.wait()
                    break
            errf.close()
            done_ids, inflight, finished = set(), None, False
            try:
                with open(res) as f:
                    for line in f:
                        try:
                            v = json.loads(line)
                        except Exception:  # noqa: BLE001
                            continue
                        if "BASELINE" in v:
                            with lock:
                                baseline.update(v)
                        elif "BEGIN" in v:
                            inflight = (v["BEGIN"], v.get("api"))
                        elif "DONE" in v:
                            finished = True
                        elif "id" in v:
                            with lock:
                                results[v["id"]] = v
                            done_ids.add(v["id"])
                            if inflight and inflight[0] == v["id"]:
                                inflight = None
            except OSError:
                pass
            todo = [m for m in todo if m["id"] not in done_ids]
            if finished or not todo:
                break
            # the process ended early: the in-flight mutant is the culprit
            with open(os.path.join(wd, "stderr.txt"), "rb") as f:
                err = f.read()[-1500:].decode("utf-8", "replace")
            victim = inflight[0] if inflight else todo[0]["id"]
            how = "stall" if stalled else (f"signal-{-p.returncode}" if p.returncode and p.returncode < 0 else f"exit-{p.returncode}")
            if "overflowed its stack" in err:
                how = "stack-overflow"
            elif "memory allocation of" in err:
                how = "alloc-failure"
            try:
                left = os.path.getsize(os.path.join(wd, "m.mv2"))
            except OSError:
                left = None
            d = {"id": victim, "died": {"how": how, "api": inflight[1] if inflight else None, "stderr": err[-400:], "stall_s": stall_s if stalled else None, "scratch_file_bytes": left}}
            with lock:
                results[victim] = d
                deaths.append(d)
            todo = [m for m in todo if m["id"] != victim]
        shutil.rmtree(wd, ignore_errors=True)

    with ThreadPoolExecutor(max_workers=workers) as ex:
        list(ex.map(work, range(workers)))
    return results, baseline, deaths


def describe(m):
    d = {k: v for k, v in m.items() if k in ("kind", "off", "len", "xor", "bytes", "value", "region", "shape", "at", "seed", "magic", "doctor_mask", "damage", "event")}
    return d


# ------------------------------------------------------------------------------------------ C20

PRIORITY = ["frame-count", "frame-meta", "payload", "blob", "text", "embedding", "timeline", "search", "vector", "card_list", "cards", "stats", "ticket"]


def primary_component(diff):
    """One component name per observation difference: the most fundamental one that differs."""
    names = {d.split(":")[0] for d in diff}
    for p in PRIORITY:
        if p in names:
            return p
    return sorted(names)[0]


def judge_c20(m, r):
    """(key, text) for every way the result of one mutant violates C20."""
    out = []
    region = m.get("region", "?")
    for how in ("ro", "rw"):
        o = r.get(how) or {}
        if o.get("opened") and o.get("diff"):
            out.append((f"C20:served-silently:{region}:{primary_component(o['diff'])}",
                        f"{describe(m)} -> open ({how}) succeeds and reads return data that differs from the committed data in {o['diff']}"))
    v = (r.get("verify") or {}).get("status")
    ro = r.get("ro") or {}
    if v == "Passed" and ro.get("opened") and ro.get("diff"):
        out.append((f"C20:verify-passed-on-differing-file:{region}:{primary_component(ro['diff'])}",
                    f"{describe(m)} -> verify(deep) = Passed although read-only reads differ in {ro['diff']}"))
    # one entry per key
    seen, res = set(), []
    for k, w in out:
        if k not in seen:
            seen.add(k)
            res.append((k, w))
    return res


def c20(pid, tier, seed, scratch):
    bindir = C.build()
    rng = random.Random(seed)
    rep = _report("corruption-served-or-detected", seed,
                  "committed, closed memories (text, chunked text, binary, embedded documents, deletes/updates, tickets; Tantivy segments, vector index, time index, memories and sketch tracks) "
                  "are damaged: single-byte flips (3 patterns; stratified per decoded region in quick, exhaustive over the non-zero bytes of one file in thorough, except its TOC which is sampled), zeroed / 0xFF-filled ranges aligned "
                  "to structures and at random, truncation at every structure boundary +-1 and at random offsets, appended bytes. Each mutant is opened read-only and read-write (scratch copy) and "
                  "every frame's metadata, payload, blob, text, embedding plus timeline, 12 searches, a vector search, cards, stats and ticket are compared with the undamaged file's; a read that "
                  "errs is fine, a read that returns something else is not; Memvid::verify(deep) must not report Passed on a file whose read-only reads differ. a case is one mutant; distinct = "
                  "distinct (file, mutant) pairs probed")
    rep["required_counters"] = ["mutants_probed", "mutants_rejected_at_open", "mutants_opened", "regions_covered"]
    files = [(seed * 100 + 1, 7, "tiny")] if tier == "quick" else [(seed * 100 + 1, 7, "tiny"), (seed * 100 + 2, 12, "corpus"), (seed * 100 + 3, 16, "corpus")]
    if tier == "quick":
        files.append((seed * 100 + 2, 10, "corpus"))
    # a memory with one 1.2 MiB binary document: the streaming reader of large uncompressed payloads (few mutants: the file is big)
    files.append((seed * 100 + 9, 4, "bigblob"))
    regions_seen = set()
    for fi, (fseed, ops, profile) in enumerate(files):
        wd = os.path.join(scratch, f"f{fi}")
        os.makedirs(wd, exist_ok=True)
        try:
            path, st = make_corpus(bindir, fseed, ops, wd, profile)
        except C.Inconclusive as e:
            rep["inconclusive"].append({"case": f"corpus {fseed}", "reason": str(e)[:300]})
            continue
        data = open(path, "rb").read()
        regs = regions_of(layout(bindir, path), len(data))
        exhaustive = tier == "thorough" and fi == 0
        muts = []
        if profile == "bigblob":
            for name, s, e in regs:
                if e - s > 1_000_000:
                    muts += [{"kind": "flip", "off": rng.randrange(s, e), "xor": rng.choice([1, 0x80, 0xFF]), "region": name} for _ in range(24)]
                    muts += [{"kind": "zero", "off": rng.randrange(s, e - 600), "len": rng.randrange(1, 512), "region": name, "shape": "random-range"} for _ in range(8)]
                elif name.startswith("payload"):
                    muts += flips_for_region(data, name, s, e, rng, 6, False)
            regs_for_flips = []
        else:
            regs_for_flips = regs
        for name, s, e in regs_for_flips:
            budget = 60 if tier == "quick" else 400
            if name == "unmapped" or name == "wal":
                budget = 30
            # a damaged TOC sends open() into its trailer scan, which re-hashes the file tail at every offset (seconds per
            # mutant even on a 100 KiB file): the TOC is sampled (its checksum catches every flip alike), everything else is exhaustive
            if exhaustive and name == "toc":
                budget = 3000
            muts += flips_for_region(data, name, s, e, rng, budget, exhaustive and name not in ("unmapped", "toc"))
        if profile != "bigblob":
            muts += structural_mutants(data, regs, rng, 40 if tier == "quick" else 400)
        _count(rep, "corpus_files")
        _count(rep, "corpus_bytes", len(data))
        results, baseline, deaths = run_plan(bindir, "c20", path, muts, os.path.join(wd, "run"), stall_s=120)
        if "BASELINE" not in baseline:
            rep["inconclusive"].append({"case": f"corpus {fseed}", "reason": "baseline observation missing"})
            continue
        for m in muts:
            r = results.get(m["id"])
            if r is None:
                rep["inconclusive"].append({"case": f"file {fseed} mutant {describe(m)}", "reason": "no result"})
                continue
            if "skipped" in r:
                continue
            rep["evaluations"] += 1
            rep["distinct_nontrivial"] += 1
            _count(rep, "mutants_probed")
            _count(rep, f"mutants[{m['kind']}]")
            region = m.get("region", "?")
            regions_seen.add(region.split(":")[0])
            detail = {"mode": "fault", "check": "c20", "corpus_seed": fseed, "corpus_ops": ops, "corpus_profile": profile, "mutant": describe(m)}
            if "died" in r:
                # a crash or stall is C22's subject; here it only means nothing was served
                _count(rep, "mutants_that_killed_the_probe")
                continue
            opened_any = any((r.get(how) or {}).get("opened") for how in ("ro", "rw"))
            if any((r.get(how) or {}).get("panic") for how in ("ro", "rw")):
                _count(rep, "panics_seen(judged_by_C22)")
            _count(rep, "mutants_opened" if opened_any else "mutants_rejected_at_open")
            v = (r.get("verify") or {}).get("status")
            if v:
                _count(rep, f"verify[{v}]")
            for key, what in judge_c20(m, r):
                _violation(rep, key, f"file seed {fseed}: {what}", detail)
        if len(rep["samples"]) < 3:
            rep["samples"].append({"corpus_seed": fseed, "file_bytes": len(data), "regions": [[n, s, e] for n, s, e in regs][:40], "mutants": len(muts),
                                   "exhaustive_single_byte_flips": exhaustive, "example_mutant": describe(muts[len(muts) // 2])})
        shutil.rmtree(wd, ignore_errors=True)
    rep["counters"]["regions_covered"] = len(regions_seen)
    rep["samples"].append({"regions_covered": sorted(regions_seen)})
    return [rep], [], {"assumptions": ["one fault per mutant (a flip, one zeroed/filled range, or one truncation), applied to a committed, closed file",
                                       "reads compared: frame metadata, canonical payload, blob reader, text, embedding, timeline, 12 lexical searches (frame sets), one vector search, cards, stats, ticket",
                                       "a probe process that dies on a mutant served nothing; crashes and stalls are judged by C22"]}


# ------------------------------------------------------------------------------------------ C22

def c22_inputs(bindir, seed, tier, scratch, rng):
    """(base path, mutants) groups."""
    groups = []
    specs = [(seed * 100 + 11, 7, "tiny"), (seed * 100 + 12, 10, "corpus")] if tier == "quick" else \
        [(seed * 100 + 11, 7, "tiny"), (seed * 100 + 12, 10, "corpus"), (seed * 100 + 13, 9, "tiny"), (seed * 100 + 14, 14, "corpus")]
    paths = []
    for i, (fseed, ops, profile) in enumerate(specs):
        wd = os.path.join(scratch, f"c{i}")
        os.makedirs(wd, exist_ok=True)
        path, _ = make_corpus(bindir, fseed, ops, wd, profile)
        paths.append((path, fseed, ops, profile))
    # a file with un-committed records in its log (copied while the writer has pending puts)
    for i, (path, fseed, ops, profile) in enumerate(paths):
        data = open(path, "rb").read()
        regs = regions_of(layout(bindir, path), len(data))
        muts = []
        scale = 1 if tier == "quick" else 8
        for name, s, e in regs:
            muts += flips_for_region(data, name, s, e, rng, 8 * scale if name not in ("unmapped", "wal") else 4 * scale, False)
        muts += structural_mutants(data, regs, rng, 10 * scale)
        lf = length_field_mutants(data, regs, rng, 2 * scale)
        muts += lf if tier != "quick" else rng.sample(lf, min(len(lf), 260))
        other = paths[(i + 1) % len(paths)][0]
        n = len(data)
        for _ in range(6 * scale):
            muts.append({"kind": "splice", "other": other, "at": rng.randrange(0, n), "region": "splice", "shape": "splice-two-files"})
        for _ in range(8 * scale):
            muts.append({"kind": "random", "len": rng.choice([0, 1, 100, 4095, 4096, 4097, 70000, rng.randrange(0, 200000)]), "seed": rng.randrange(1 << 30), "magic": rng.random() < 0.6, "region": "random", "shape": "random-file"})
        groups.append((path, fseed, ops, profile, muts))
    return groups


def judge_c22(m, r, size):
    out, inconclusive = [], None
    if "died" in r:
        d = r["died"]
        api = (d.get("api") or "?")
        if d["how"] == "stall":
            left = d.get("scratch_file_bytes") or 0
            if api == "open-after-doctor" and left > 256 * 1024:
                inconclusive = f"open of the {left}-byte file that doctor left behind made no progress for 60 s (the time bound is stated for inputs of at most 256 KiB)"
            elif size <= 256 * 1024:
                out.append((f"C22:no-progress-60s:{api}:{m.get('region', '?').split(':')[0]}", f"{describe(m)} -> {api} made no progress for 60 s"))
            else:
                inconclusive = "stall on an input above 256 KiB"
        else:
            out.append((f"C22:process-died:{d['how']}:{api}", f"{describe(m)} -> the process died ({d['how']}) inside {api}: {d.get('stderr', '')[-200:]}"))
        return out, inconclusive
    seen = set()
    for p in r.get("panics") or []:
        site = p.get("panic_site") or "unknown"
        key = f"C22:panic:{site}"
        if key not in seen:
            seen.add(key)
            out.append((key, f"{describe(m)} -> {p.get('api')} panicked at {site}: {p.get('message', '')[:160]}"))
    return out, inconclusive


def _sanitizer_report(name, seed, rule):
    rep = _report(name, seed, rule)
    rep["required_counters"] = ["inputs_probed"]
    return rep


def sanitizer_shards(seed, scratch, groups, rng):
    """The same probe under AddressSanitizer (nightly -Zsanitizer=address, memvid-core and every Rust dependency instrumented)
    and, on a much smaller shard, under valgrind memcheck (sees the uninstrumented C code of zstd too)."""
    reports, notes = [], []
    # ---- ASan
    try:
        asan_dir = C.build(toolchain="nightly", extra=["--target", "x86_64-unknown-linux-gnu"], target_dir=os.path.join(C.HARNESS, "target-asan"), bins=["mvprobe"],
                           rustflags="-Zsanitizer=address -Cforce-frame-pointers=yes --cfg memvid_verif", subdir="x86_64-unknown-linux-gnu/release")
    except C.Inconclusive as e:
        notes.append(f"ASan build failed: {str(e)[-300:]}")
        asan_dir = None
    if asan_dir:
        rep = _sanitizer_report("no-panic-no-hang@asan", seed, "a sample of the same inputs through the same entry points in a build instrumented with AddressSanitizer (abort_on_error=1, "
                                "detect_leaks=0); an ASan report kills the probe and is keyed by its bug type and first in-repo frame; a case is one input; distinct = distinct inputs")
        for gi, (path, fseed, ops, profile, muts) in enumerate(groups[:2]):
            sample = rng.sample(muts, min(len(muts), 1500))
            for i, m in enumerate(sample):
                m = dict(m)
                sample[i] = m
            results, _, deaths = run_plan(asan_dir, "c22", path, sample, os.path.join(scratch, f"asan{gi}"), stall_s=240,
                                          extra_env={"ASAN_OPTIONS": "abort_on_error=1:detect_leaks=0:allocator_may_return_null=1:symbolize=1", "ASAN_SYMBOLIZER_PATH": "/usr/bin/llvm-symbolizer-14"}, limited=LIMITED_ASAN)
            for m in sample:
                r = results.get(m["id"])
                if r is None or "skipped" in r:
                    continue
                rep["evaluations"] += 1
                rep["distinct_nontrivial"] += 1
                _count(rep, "inputs_probed")
                detail = {"mode": "fault", "check": "c22", "corpus_seed": fseed, "corpus_ops": ops, "corpus_profile": profile, "mutant": describe(m), "under": "asan"}
                if "died" in r:
                    err = r["died"].get("stderr", "")
                    if "AddressSanitizer" in err:
                        bug = "unknown"
                        for line in err.splitlines():
                            if "ERROR: AddressSanitizer:" in line:
                                bug = line.split("AddressSanitizer:")[1].split()[0]
                        frame = next((l.strip().split(" in ")[-1].split(" ")[0] for l in err.splitlines() if "memvid_core" in l), "no-repo-frame")
                        _violation(rep, f"C22:asan:{bug}:{frame[:80]}", f"file seed {fseed}: {describe(m)} -> AddressSanitizer {bug} in {r['died'].get('api')}: {err[-300:]}", detail)
                    elif r["died"]["how"] == "stall":
                        rep["inconclusive"].append({"case": f"asan file {fseed} mutant {describe(m)}", "reason": "no progress for 240 s under ASan"})
                    else:
                        _violation(rep, f"C22:process-died:{r['died']['how']}:{r['died'].get('api')}", f"file seed {fseed} (ASan build): {describe(m)} -> the process died ({r['died']['how']}): {err[-200:]}", detail)
                for p in r.get("panics") or []:
                    _violation(rep, f"C22:panic:{p.get('panic_site') or 'unknown'}", f"file seed {fseed} (ASan build): {describe(m)} -> {p.get('api')} panicked at {p.get('panic_site')}", detail)
        rep["samples"].append({"build": "nightly -Zsanitizer=address --target x86_64-unknown-linux-gnu", "inputs": rep["counters"].get("inputs_probed", 0)})
        reports.append(rep)
    # ---- valgrind memcheck on the plain build
    bindir = os.path.join(C.HARNESS, "target", "release")
    rep = _sanitizer_report("no-panic-no-hang@memcheck", seed, "a small sample of the inputs through the same entry points under valgrind memcheck on the uninstrumented build (covers the C code of "
                            "zstd, which ASan does not instrument); any memcheck error makes the probe exit with status 99; a case is one input; distinct = distinct inputs")
    path, fseed, ops, profile, muts = groups[0]
    sample = [dict(m) for m in rng.sample(muts, min(len(muts), 48))]
    results, _, deaths = run_plan(bindir, "c22", path, sample, os.path.join(scratch, "memcheck"), workers=16, stall_s=900, limited=LIMITED_ASAN, wrapper=["valgrind", "-q", "--error-exitcode=99", "--exit-on-first-error=yes"])
    for m in sample:
        r = results.get(m["id"])
        if r is None or "skipped" in r:
            continue
        rep["evaluations"] += 1
        rep["distinct_nontrivial"] += 1
        _count(rep, "inputs_probed")
        detail = {"mode": "fault", "check": "c22", "corpus_seed": fseed, "corpus_ops": ops, "corpus_profile": profile, "mutant": describe(m), "under": "memcheck"}
        if "died" in r:
            d = r["died"]
            if d["how"] == "exit-99":
                first = next((l for l in d.get("stderr", "").splitlines() if "==" in l and ("Invalid" in l or "uninitialised" in l or "Conditional" in l)), "memcheck error")
                _violation(rep, f"C22:memcheck:{first.split('== ')[-1][:60]}", f"file seed {fseed}: {describe(m)} -> valgrind memcheck error inside {d.get('api')}: {d.get('stderr', '')[-300:]}", detail)
            elif d["how"] == "stall":
                rep["inconclusive"].append({"case": f"memcheck file {fseed} mutant {describe(m)}", "reason": "no progress for 900 s under valgrind"})
            else:
                _violation(rep, f"C22:process-died:{d['how']}:{d.get('api')}", f"file seed {fseed} (valgrind): {describe(m)} -> the process died ({d['how']}): {d.get('stderr', '')[-200:]}", detail)
    rep["samples"].append({"tool": "valgrind 3.19 memcheck", "inputs": rep["counters"].get("inputs_probed", 0)})
    reports.append(rep)
    return reports, notes


def c22(pid, tier, seed, scratch):
    bindir = C.build()
    rng = random.Random(seed)
    rep = _report("no-panic-no-hang", seed,
                  "mutants of committed memories (single-byte flips per decoded region, zeroed / filled ranges, truncation at every structure boundary +-1 and at random, u32/u64 field edits to "
                  "0, 1, +-1, 2^31, 2^32-1, 2^63, 2^64-1 and 'bytes to EOF' at structure starts and random positions, splices of two files, random files with and without a valid header page); per "
                  "input: open read-write + all reads, open read-only + all reads, verify deep and shallow, doctor_plan, doctor (default / all rebuilds / vacuum) and open of what doctor left; each call "
                  "under catch_unwind in a supervised process: a panic, a fatal signal (abort, stack overflow, allocation failure) or no progress for 60 s is a violation; a case is one input; "
                  "distinct = distinct inputs")
    rep["required_counters"] = ["inputs_probed", "api_calls_completed"]
    try:
        groups = c22_inputs(bindir, seed, tier, scratch, rng)
    except C.Inconclusive as e:
        raise
    slowest = 0
    for gi, (path, fseed, ops, profile, muts) in enumerate(groups):
        results, _, deaths = run_plan(bindir, "c22", path, muts, os.path.join(scratch, f"run{gi}"), stall_s=60)
        size = os.path.getsize(path)
        _count(rep, "corpus_files")
        for m in muts:
            r = results.get(m["id"])
            if r is None:
                rep["inconclusive"].append({"case": f"file {fseed} mutant {describe(m)}", "reason": "no result"})
                continue
            if "skipped" in r:
                continue
            rep["evaluations"] += 1
            rep["distinct_nontrivial"] += 1
            _count(rep, "inputs_probed")
            _count(rep, f"inputs[{m.get('shape') or m['kind']}]")
            detail = {"mode": "fault", "check": "c22", "corpus_seed": fseed, "corpus_ops": ops, "corpus_profile": profile, "mutant": describe(m)}
            verdicts, inconclusive = judge_c22(m, r, size)
            for key, what in verdicts:
                _violation(rep, key, f"file seed {fseed} ({size} bytes): {what}", detail)
            if inconclusive:
                rep["inconclusive"].append({"case": f"file {fseed} mutant {describe(m)}", "reason": inconclusive})
            for name, c in (r.get("calls") or {}).items():
                _count(rep, "api_calls_completed")
                slowest = max(slowest, c.get("ms", 0))
                cls = str(c.get("r", "")).split(":")[0]
                _count(rep, f"outcome[{name}][{cls}]")
        if len(rep["samples"]) < 3:
            rep["samples"].append({"corpus_seed": fseed, "file_bytes": size, "inputs": len(muts), "example_input": describe(muts[len(muts) // 3])})
    rep["counters"]["max_call_ms"] = slowest
    reports = [rep]
    notes = []
    if tier == "thorough":
        r2, n2 = sanitizer_shards(seed, scratch, groups, rng)
        reports += r2
        notes += n2
    return reports, notes, {"assumptions": ["time bound: no progress for 60 s on inputs whose base file is at most 256 KiB is a violation; above that size a stall is inconclusive",
                                       "address space limited to 12 GiB and file size to 1 GiB per probe process (an attempt to grow a file beyond that fails with EFBIG); an allocation failure abort is reported as a process death",
                                       "the harness is built with debug assertions and overflow checks on, as the repository's own test profile is",
                                       "structure-aware mutation only; no coverage feedback"]}


# ------------------------------------------------------------------------------------------ C21

MASK_NAMES = ["rebuild_time", "rebuild_lex", "rebuild_vec", "vacuum", "dry_run"]


def mask_text(mask):
    return "+".join(n for i, n in enumerate(MASK_NAMES) if mask & (1 << i)) or "default"


def mask_class(mask):
    parts = []
    if mask & 7:
        parts.append("rebuild")
    if mask & 8:
        parts.append("vacuum")
    return "+".join(parts) or "default"


def targeted_damage(data, lay, regs, rng):
    """Damage restricted to what C21 names: header pointer, header/TOC checksum, footer, index segments."""
    out = []
    n = len(data)
    fo = int.from_bytes(data[8:16], "little")
    for v, shape in ((0, "zero"), (fo + 1, "plus-one"), (fo - 1, "minus-one"), (n + 4096, "beyond-eof"), (rng.randrange(4096, n), "random")):
        out.append({"kind": "set", "off": 8, "bytes": int(v).to_bytes(8, "little").hex(), "damage": "header-footer-offset", "shape": shape})
    for _ in range(3):
        out.append({"kind": "flip", "off": rng.randrange(48, 80), "xor": rng.choice([1, 0x80, 0xFF]), "damage": "header-toc-checksum"})
    out.append({"kind": "zero", "off": 48, "len": 32, "damage": "header-toc-checksum", "shape": "zeroed"})
    toc = next(((s, e) for nm, s, e in regs if nm == "toc"), None)
    foot = next(((s, e) for nm, s, e in regs if nm == "footer"), None)
    if toc:
        for _ in range(3):
            out.append({"kind": "flip", "off": rng.randrange(toc[1] - 32, toc[1]), "xor": rng.choice([1, 0x80, 0xFF]), "damage": "toc-checksum-field"})
    if foot:
        for _ in range(4):
            out.append({"kind": "flip", "off": rng.randrange(foot[0], foot[1]), "xor": rng.choice([1, 0x80, 0xFF]), "damage": "footer"})
        out.append({"kind": "zero", "off": foot[0], "len": foot[1] - foot[0], "damage": "footer", "shape": "zeroed"})
        out.append({"kind": "trunc", "len": foot[1] - rng.randrange(1, foot[1] - foot[0]), "damage": "footer", "shape": "cut-inside-footer"})
    for nm, s, e in regs:
        if nm in ("time_index", "vec", "tantivy_segments"):
            out.append({"kind": "zero", "off": s, "len": e - s, "damage": f"index:{nm}", "shape": "zeroed"})
            out.append({"kind": "flip", "off": rng.randrange(s, e), "xor": 0xFF, "damage": f"index:{nm}", "shape": "one-byte"})
    return out


def healed_diff(base, got):
    """After doctor every committed active frame must be there, readable and identical."""
    out = []
    bf, gf = base.get("frames") or [], got.get("frames") or []
    if len(gf) < len(bf):
        out.append("frames-missing")
    for b, g in zip(bf, gf):
        if b.get("status") != "Active":
            continue
        if g.get("err"):
            out.append("frame-unreadable")
            continue
        if g.get("status") != "Active":
            out.append("active-frame-no-longer-active")
            continue
        for k in ("uri", "role", "parent", "ts", "title"):
            if b.get(k) != g.get(k):
                out.append(f"frame-meta:{k}")
        for k in ("payload", "blob", "text"):
            if b.get(k) != g.get(k):
                out.append(f"content:{k}")
    for k in ("timeline",):
        if base.get(k) != got.get(k):
            out.append(k)
    bs = [x for x in (base.get("searches") or [])]
    gs = [x for x in (got.get("searches") or [])]
    if bs != gs:
        out.append("search")
    seen, res = set(), []
    for o in out:
        if o not in seen:
            seen.add(o)
            res.append(o)
    return res


def judge_c21(m, r, states, baseline):
    """(key, text) list for one doctor case. `m` carries damage class, mask and (for crash images) the crash context."""
    out = []
    mask = m.get("doctor_mask", 0)
    cls = m.get("damage", "?")
    oc = mask_class(mask)
    tag = cls
    desc = f"{describe(m)} doctor({mask_text(mask)})"
    if "died" in r:
        d = r["died"]
        return [(f"C21:process-died:{d['how']}:{d.get('api')}:{cls}", f"{desc} -> the process died ({d['how']}) inside {d.get('api')}: {d.get('stderr', '')[-160:]}")]
    for p in r.get("panics") or []:
        out.append((f"C21:panic:{p.get('panic_site') or 'unknown'}", f"{desc} -> {p.get('api')} panicked at {p.get('panic_site')}: {p.get('message', '')[:140]}"))
    doc = r.get("doctor") or {}
    st = doc.get("status")
    if mask & 16:
        if r.get("bytes_changed"):
            out.append((f"C21:dry-run-modified-the-file:{cls}", f"{desc} -> dry_run changed the file bytes (status {st})"))
        return out
    if st in ("err", "Failed", "Partial", "PlanOnly"):
        out.append((f"C21:not-healed:doctor-status={st}:{tag}", f"{desc} -> doctor returned {st} {doc.get('err', '')} {doc.get('error', '')} findings {doc.get('findings')}"))
    op = r.get("open") or {}
    if not op.get("ok"):
        if not op.get("panic"):
            out.append((f"C21:not-healed:open-fails-after-doctor:{tag}", f"{desc} -> doctor {st}, then open fails: {op.get('err')}"))
        return out
    v = r.get("verify")
    if v != "Passed":
        out.append((f"C21:not-healed:verify={v}:{tag}", f"{desc} -> doctor {st}, verify(deep) = {v} (failed checks {r.get('verify_failed_checks')})"))
    d2 = r.get("doctor2")
    if d2 != "Clean":
        out.append((f"C21:second-doctor-run-not-clean:{d2}:{tag}", f"{desc} -> first run {st}, an immediate second run reports {d2} {r.get('doctor2_findings')}"))
    obs = r.get("obs") or {}
    if m.get("crash_ctx") is not None:
        verdict = X.judge(dict(obs, open="ok"), m["crash_ctx"], states)
        if verdict is not None:
            out.append((f"C21:acknowledged-data-altered:{verdict[0]}:{tag}", f"{desc} -> after doctor the documents are not a state the history allows: {verdict[1]}"))
    elif baseline.get("BASELINE"):
        diff = healed_diff(baseline["BASELINE"], obs)
        if diff:
            out.append((f"C21:committed-data-altered:{diff[0]}:{tag}", f"{desc} -> after doctor the committed data differs: {diff}"))
    return out


def c21(pid, tier, seed, scratch):
    bindir = C.build()
    X.ensure_shim()
    rng = random.Random(seed)
    rep = _report("doctor", seed,
                  "inputs: (a) committed memories damaged only in the header's footer pointer, the header's or the TOC's checksum field, the footer bytes, or one index segment (time index, vector index, "
                  "an embedded Tantivy segment) zeroed or flipped; (b) crash-left files: process-crash images of recorded histories (states after every file-system call inside put / update / delete / "
                  "commit / log growth / vacuum / ticket), incl. images with acknowledged records still in the log; each x doctor option combinations (rebuild_time/lex/vec, vacuum, dry_run: all 32 in "
                  "thorough, sampled in quick). Judged: doctor status, open, verify(deep) = Passed, an immediate second run with default options = Clean, dry_run leaves the bytes unchanged, and the data: every committed "
                  "active frame identical (a) / the documents form a state the history allows at that crash point (b). a case is one doctor run (+ the follow-up calls); distinct = distinct (input, options)")
    rep["required_counters"] = ["doctor_runs", "targeted_damage_cases", "crash_image_cases", "healed_and_verified"]
    classes = set()
    masks_all = list(range(32))
    # ---- (a) targeted damage
    # "reuse": histories with metadata-only updates (a higher frame id re-uses the stored payload of a lower one) - vacuum has to cope
    files = [(seed * 100 + 21, 7, "tiny"), (seed * 100 + 22, 10, "corpus"), (seed * 100 + 25, 9, "reuse")] if tier == "quick" else \
        [(seed * 100 + 21, 7, "tiny"), (seed * 100 + 22, 10, "corpus"), (seed * 100 + 23, 9, "tiny"), (seed * 100 + 24, 14, "corpus"), (seed * 100 + 25, 9, "reuse"), (seed * 100 + 26, 14, "reuse")]
    for fi, (fseed, ops, profile) in enumerate(files):
        wd = os.path.join(scratch, f"f{fi}")
        os.makedirs(wd, exist_ok=True)
        try:
            path, st = make_corpus(bindir, fseed, ops, wd, profile)
        except C.Inconclusive as e:
            rep["inconclusive"].append({"case": f"corpus {fseed}", "reason": str(e)[:300]})
            continue
        data = open(path, "rb").read()
        lay = layout(bindir, path)
        regs = regions_of(lay, len(data))
        muts = []
        for dmg in [{"kind": "none", "damage": "undamaged"}] + targeted_damage(data, lay, regs, rng):
            masks = masks_all if tier == "thorough" else rng.sample(masks_all, 3) + [0]
            for mask in sorted(set(masks)):
                mm = dict(dmg)
                mm["doctor_mask"] = mask
                muts.append(mm)
        results, baseline, deaths = run_plan(bindir, "c21", path, muts, os.path.join(wd, "run"), stall_s=120, extra_args=["--baseline"])
        for m in muts:
            r = results.get(m["id"])
            if r is None or "skipped" in r:
                continue
            rep["evaluations"] += 1
            rep["distinct_nontrivial"] += 1
            _count(rep, "doctor_runs")
            _count(rep, "targeted_damage_cases")
            _count(rep, f"damage[{m['damage']}]")
            _count(rep, f"doctor_status[{(r.get('doctor') or {}).get('status')}]")
            classes.add(m["damage"])
            detail = {"mode": "fault", "check": "c21", "corpus_seed": fseed, "corpus_ops": ops, "corpus_profile": profile, "mutant": describe(m)}
            verdicts = judge_c21(m, r, None, baseline)
            if not verdicts and not (m["doctor_mask"] & 16):
                _count(rep, "healed_and_verified")
            for key, what in verdicts:
                _violation(rep, key, f"file seed {fseed}: {what}", detail)
        if len(rep["samples"]) < 2:
            rep["samples"].append({"corpus_seed": fseed, "file_bytes": len(data), "cases": len(muts), "example": describe(muts[len(muts) // 2])})
        shutil.rmtree(wd, ignore_errors=True)
    # ---- (b) crash-left files
    n_hist, ops, limit, per_image = (3, 12, 40, 2) if tier == "quick" else (16, 24, 160, 4)
    for h in range(n_hist):
        wd = os.path.join(scratch, f"h{h}")
        os.makedirs(wd, exist_ok=True)
        hseed = seed * 1000 + 300 + h
        try:
            rec = X.record(bindir, hseed, ops, wd)
        except C.Inconclusive as e:
            rep["inconclusive"].append({"case": f"history {hseed}", "reason": str(e)[:300]})
            continue
        imgs = X.process_crash_images(rec, limit=limit, rng=rng)
        imgdir = os.path.join(wd, "imgs")
        os.makedirs(imgdir, exist_ok=True)
        muts = []
        for i, img in enumerate(imgs):
            ip = os.path.join(imgdir, f"i{i}.mv2")
            with open(ip, "wb") as f:
                f.write(img["bytes"])
            ctx = img["ctx"]
            stack = ctx.get("phases") or []
            where = (f"crash-inside:{stack[0]}" if stack else f"crash-inside-op:{ctx['op']}") if ctx["inside"] else f"crash-after-op:{ctx['op']}"
            for mask in rng.sample([m for m in masks_all if not m & 16], per_image):
                muts.append({"kind": "file", "path": ip, "damage": where, "doctor_mask": mask, "crash_ctx": ctx, "event": img["k"]})
        base = os.path.join(imgdir, "i0.mv2") if imgs else None
        if not base:
            continue
        results, _, deaths = run_plan(bindir, "c21", base, muts, os.path.join(wd, "run"), stall_s=120)
        for m in muts:
            r = results.get(m["id"])
            if r is None or "skipped" in r:
                continue
            rep["evaluations"] += 1
            rep["distinct_nontrivial"] += 1
            _count(rep, "doctor_runs")
            _count(rep, "crash_image_cases")
            _count(rep, f"doctor_status[{(r.get('doctor') or {}).get('status')}]")
            classes.add(m["damage"])
            detail = {"mode": "crash21", "seed": hseed, "ops": ops, "event_index": m["event"], "doctor_mask": m["doctor_mask"], "ctx": m["crash_ctx"]}
            verdicts = judge_c21(m, r, rec["states"], {})
            if not verdicts:
                _count(rep, "healed_and_verified")
            for key, what in verdicts:
                _violation(rep, key, f"history seed {hseed}, image after event {m['event']}: {what}", detail)
        if len(rep["samples"]) < 4 and imgs:
            rep["samples"].append({"history_seed": hseed, "operations": [s["op"] for s in rec["states"]], "crash_images": len(imgs), "doctor_cases": len(muts)})
        shutil.rmtree(wd, ignore_errors=True)
    rep["counters"]["input_classes_covered"] = len(classes)
    rep["samples"].append({"input_classes": sorted(classes)})
    return [rep], [], {"assumptions": ["targeted damage is one fault in one of the structures the property names; crash-left files follow the process-crash model of C02 (completed calls persist, program order)",
                                       "allowed states for a crash-left file: inside operation j+1 -> {S_j, S_j+1}, between operations -> {S_j}",
                                       "quick samples the option combinations (always including the defaults); thorough runs all 32 for targeted damage"]}


def replay(detail, scratch, pid):
    """Re-create the corpus file, apply the recorded mutant, run the recorded check; returns the keys seen."""
    bindir = C.build()
    wd = os.path.join(scratch, "corpus")
    os.makedirs(wd, exist_ok=True)
    path, st = make_corpus(bindir, detail["corpus_seed"], detail["corpus_ops"], wd, detail.get("corpus_profile", "corpus"))
    m = dict(detail["mutant"])
    mode = detail["check"]
    results, baseline, deaths = run_plan(bindir, mode, path, [m], os.path.join(scratch, "run"), workers=1, stall_s=60)
    r = results.get(0) or {}
    if os.environ.get("VERIF_REPLAY_VERBOSE"):
        print(json.dumps(r)[:3000])
    if mode == "c20":
        return [k for k, _ in judge_c20(m, r)]
    if mode == "c22":
        return [k for k, _ in judge_c22(m, r, os.path.getsize(path))[0]]
    return [k for k, _ in judge_c21(m, r, st, baseline)]
