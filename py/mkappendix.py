#!/usr/bin/env python3
"""Regenerate the generated parts of DESIGN.md: Appendix A (from known_findings.json) and the seeded table (from seeded/*/meta.json)."""
import glob
import json
import os
import re

VERIF = os.path.dirname(os.path.dirname(os.path.abspath(__file__)))


def appendix():
    d = json.load(open(os.path.join(VERIF, "known_findings.json")))
    by = {}
    for f in d["findings"]:
        by.setdefault(f["property"], []).append(f)
    out = []
    fixes = {}
    for f in d["findings"]:
        if f["status"] == "fixed":
            fixes.setdefault(f.get("commit", "?"), []).append(f)
    out.append(f"**Repaired defects** ({len(fixes)} `fix:` commits in /repo; each keeps the repository's unedited test suite green). A fixed entry suppresses nothing: the checks report the violation again if it returns.\n")
    out.append("| commit | property | what failed (first witness) |")
    out.append("|---|---|---|")
    for c, fs in fixes.items():
        props = ", ".join(sorted({f["property"] for f in fs}))
        what = fs[0]["what"]
        what = re.sub(r"^fixed: property=\S+ \S+ ", "", what)
        out.append(f"| `{c}` | {props} | {what[:400]} |")
    out.append("")
    out.append("**Known findings** (genuine defects recorded, not repaired: design-level or not a small safe patch). Each key names the failing site / region / component, so a different failure of the same property is still a VIOLATION.\n")
    for p in sorted(by):
        ks = [f for f in by[p] if f["status"] == "known"]
        if not ks:
            continue
        out.append(f"*{p}*")
        for f in ks:
            out.append(f"- `{f['key']}` — {f['what'][:500]}")
        out.append("")
    return "\n".join(out)


def seeded():
    rows = []
    for m in sorted(glob.glob(os.path.join(VERIF, "seeded", "*", "meta.json"))):
        j = json.load(open(m))
        rows.append(j)
    if not rows:
        return "_no seeded regression confirmed yet_"
    def cell(t):
        return str(t).replace("|", "/").replace("\n", " ")
    out = ["| id | change (needs) | caught by | key(s) reported | first run / what was strengthened |", "|---|---|---|---|---|"]
    for j in rows:
        d = os.path.join(VERIF, "seeded", j.get("id", ""))
        conf = {}
        if os.path.exists(os.path.join(d, "confirm.json")):
            conf = json.load(open(os.path.join(d, "confirm.json")))
        first = (j.get("runs") or [{}])[0]
        first_txt = "caught on the first run" if first.get("exit") == 1 else j.get("strengthening", "missed on the first run")
        if j.get("note"):
            first_txt += " " + j["note"]
        keys = ", ".join(f"`{k}`" for k in j.get("keys", [])[:3])
        out.append(f"| {j.get('id')} | {cell(j.get('summary', ''))[:260]} *(needs: {cell(j.get('needs', ''))[:200]})* | {cell(j.get('caught_by', 'not run'))} | {keys} | {cell(first_txt)[:500]} |")
    n_caught = sum(1 for j in rows if str(j.get("caught_by", "")).startswith("C"))
    n_first = sum(1 for j in rows if (j.get("runs") or [{}])[0].get("exit") == 1)
    n_conf = 0
    for j in rows:
        cp = os.path.join(VERIF, "seeded", j.get("id", ""), "confirm.json")
        if os.path.exists(cp):
            c = json.load(open(cp))
            sw = c.get("suite_with_change") or {}
            if c.get("demo_passes_without_change") and c.get("demo_fails_with_change") and (sw.get("failed") == 0 or sw.get("timing_test_alone_passes")):
                n_conf += 1
    head = (f"{len(rows)} regressions kept, in two waves (`S-<property>-1`: first wave, `-2`: second wave written after the first wave's gaps had been closed). "
            f"{n_conf} are confirmed here by `py/seedconfirm.py` in a scratch worktree (demonstration passes on the unchanged tree and fails with the change; the repository's "
            f"unedited test suite passes with the change - `seeded/<id>/confirm.json`; the one wall-clock unit test of the repository, `test_sketch_candidate_speed`, is re-run alone when "
            f"it is the only failure on the loaded machine). {n_first} were reported by the quick tier on the first run, {n_caught} after the strengthening described in the last column; "
            f"the remaining ones are listed as NOT CAUGHT with the reason.\n\n")
    return head + "\n".join(out)


def main():
    p = os.path.join(VERIF, "DESIGN.md")
    s = open(p).read()
    a = s.index("<!-- APPENDIX-A -->")
    s = s[:a] + "<!-- APPENDIX-A -->\n" + appendix() + "\n"
    a = s.index("<!-- SEEDED-TABLE -->")
    b = s.index("\n---------", a)
    s = s[:a] + "<!-- SEEDED-TABLE -->\n" + seeded() + "\n" + s[b:]
    open(p, "w").write(s)
    print("DESIGN.md appendix regenerated")


if __name__ == "__main__":
    main()
