#!/usr/bin/env python3
"""Regenerate the generated parts of DESIGN.md: Appendix A (from known_findings.json) and the seeded table (from seeded/*/meta.json)."""
import glob
import json
import os
import re

VERIF = os.path.dirname(os.path.dirname(os.path.abspath(__file__)))


def appendix():
    d = json.load(open(os.path.join(VERIF, "known_findings.json")))
    by = {}
    for f in d["findings"]:
        by.setdefault(f["property"], []).append(f)
    out = []
    fixes = {}
    for f in d["findings"]:
        if f["status"] == "fixed":
            fixes.setdefault(f.get("commit", "?"), []).append(f)
    out.append(f"**Repaired defects** ({len(fixes)} `fix:` commits in /repo; each keeps the repository's unedited test suite green). A fixed entry suppresses nothing: the checks report the violation again if it returns.\n")
    out.append("| commit | property | what failed (first witness) |")
    out.append("|---|---|---|")
    for c, fs in fixes.items():
        props = ", ".join(sorted({f["property"] for f in fs}))
        what = fs[0]["what"]
        what = re.sub(r"^fixed: property=\S+ \S+ ", "", what)
        out.append(f"| `{c}` | {props} | {what[:400]} |")
    out.append("")
    out.append("**Known findings** (genuine defects recorded, not repaired: design-level or not a small safe patch). Each key names the failing site / region / component, so a different failure of the same property is still a VIOLATION.\n")
    for p in sorted(by):
        ks = [f for f in by[p] if f["status"] == "known"]
        if not ks:
            continue
        out.append(f"*{p}*")
        for f in ks:
            out.append(f"- `{f['key']}` — {f['what'][:500]}")
        out.append("")
    return "\n".join(out)


def seeded():
    rows = []
    for m in sorted(glob.glob(os.path.join(VERIF, "seeded", "*", "meta.json"))):
        j = json.load(open(m))
        rows.append(j)
    if not rows:
        return "_no seeded regression confirmed yet_"
    out = ["| id | property | change | needs | caught by (tier) | key(s) reported |", "|---|---|---|---|---|---|"]
    for j in rows:
        out.append(f"| {j.get('id')} | {j.get('property')} | {j.get('summary', '')[:200]} | {j.get('needs', '')[:200]} | {j.get('caught_by', 'not yet run')} | {', '.join(j.get('keys', []))[:200]} |")
    return "\n".join(out)


def main():
    p = os.path.join(VERIF, "DESIGN.md")
    s = open(p).read()
    a = s.index("<!-- APPENDIX-A -->")
    s = s[:a] + "<!-- APPENDIX-A -->\n" + appendix() + "\n"
    a = s.index("<!-- SEEDED-TABLE -->")
    b = s.index("\n---------", a)
    s = s[:a] + "<!-- SEEDED-TABLE -->\n" + seeded() + "\n" + s[b:]
    open(p, "w").write(s)
    print("DESIGN.md appendix regenerated")


if __name__ == "__main__":
    main()
