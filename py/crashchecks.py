"""C02 / C03 / C04 runners on top of crashsim (engine E2)."""
import os
import random
import shutil
import time

import common as C
import crashsim as X
import iolog


def _report(monitor, seed, rule):
    return {"monitor": monitor, "seed": seed, "evaluations": 0, "distinct_nontrivial": 0, "counters": {}, "samples": [], "rule": rule,
            "violations": [], "inconclusive": [], "required_counters": [], "assumptions": []}


def _count(rep, k, n=1):
    rep["counters"][k] = rep["counters"].get(k, 0) + n


def _violation(rep, key, what, detail):
    _count(rep, f"violations[{key}]")
    if sum(1 for v in rep["violations"] if v["key"] == key) < 2:
        rep["violations"].append({"key": key, "what": what, "detail": detail})


IN_PLACE = ("grow_wal_region", "ensure_wal_capacity", "vacuum", "recover_wal", "apply_ticket", "apply_signed_ticket",
            "commit_skip_indexes_inner", "finalize_indexes", "reset_wal", "aggressive_header_repair", "try_recover_from_wal_corruption", "doctor_apply")


def _key(prop, verdict, ctx):
    """Finding key = failure family + the code site that was interrupted (root cause granularity:
    which in-place rewrite, not which error text or which operation happened to trigger it)."""
    cls = verdict[0]
    family = cls.split(":")[0] if cls.startswith(("open-error", "abort")) else cls
    if not ctx["inside"]:
        site = f"after-op={ctx['op']}"
    elif ctx["op"] == "create":
        site = "inside-op=create"
    else:
        stack = ctx.get("phases") or []
        inplace = [p for p in stack if p in IN_PLACE]
        if inplace:
            site = f"inside={inplace[0]}"
        elif "with_staging_lock" in stack:
            site = "inside=staged-commit"
        elif stack:
            site = f"inside={stack[0]}"
        else:
            site = f"inside-op={ctx['op']}"
    return f"{prop}:{family}:{site}"


# ------------------------------------------------------------------------------------------ C02

def c02(pid, tier, seed, scratch):
    bindir = C.build()
    X.ensure_shim()
    # thorough: ~18 000 images (about 40 minutes on the 16 idle cores); every operation boundary is kept, interior crash points are sampled
    n_hist, ops, limit = (7, 12, 220) if tier == "quick" else (31, 30, 600)
    rep = _report("crash-images[process-crash]", seed,
                  "histories of create/put (text, chunked text, binary incl. log-growing sizes)/update/delete/commit/apply_ticket/vacuum/reopen run under the "
                  "LD_PRELOAD recorder; the state after every mutating file-system call (completed calls persist) is an image; each distinct image is opened "
                  "read-write by a probe process and its documents compared with the states the history allows at that point; a case is one probed image; "
                  "distinct = distinct (image content, operation) pairs")
    rep["required_counters"] = ["images_probed", "images_inside_operations", "images_that_opened", "histories"]
    rng = random.Random(seed)
    phases_seen, ops_seen = set(), set()
    for h in range(n_hist):
        wd = os.path.join(scratch, f"h{h}")
        os.makedirs(wd, exist_ok=True)
        hseed = seed * 1000 + h
        # the last history of a run uses small incompressible records and frequent commits so that the log wraps
        wrap = h == n_hist - 1
        # the one before it is steered so that a pending record ends in the last 48 bytes of the log region (no room for a sentinel)
        edge = h == n_hist - 2
        profile, ops_h = ("wrap", 40) if wrap else ("edge", 40) if edge else ("crash", ops)
        try:
            rec = X.record(bindir, hseed, ops_h, wd, profile=profile)
        except C.Inconclusive as e:
            rep["inconclusive"].append({"case": f"history {hseed}", "reason": str(e)[:300]})
            continue
        _count(rep, "histories")
        _count(rep, "log_wraps_in_histories", X.count_wraps(rec["states"]))
        _count(rep, "log_growths_in_histories", X.count_growths(rec["states"]))
        if edge:
            _count(rep, "records_steered_to_end_in_last_48_bytes_of_log_region", len(rec.get("edge_ops", [])))
        imgs = X.process_crash_images(rec, limit=(min(limit, 120) if (tier == "quick" and (wrap or edge)) else limit), rng=rng, keep_ops={o for e in rec.get("edge_ops", []) for o in (e, e + 1)})
        obs = X.probe(bindir, [i["bytes"] for i in imgs], os.path.join(wd, "probe"))
        for img, o in zip(imgs, obs):
            rep["evaluations"] += 1
            rep["distinct_nontrivial"] += 1
            _count(rep, "images_probed")
            ctx = img["ctx"]
            if ctx["inside"]:
                _count(rep, "images_inside_operations")
                phases_seen.add(ctx["phase"])
            ops_seen.add(ctx["op"])
            if o.get("open") == "ok":
                _count(rep, "images_that_opened")
            verdict = X.judge(o, ctx, rec["states"])
            if verdict is None:
                continue
            if verdict[0] == "timeout":
                rep["inconclusive"].append({"case": f"history {hseed} event {img['k']}", "reason": "probe watchdog"})
                continue
            _violation(rep, _key("C02", verdict, ctx), f"history seed {hseed}, after event {img['k']} ({img['event']}): {verdict[1]}",
                       {"mode": "crash", "property": "C02", "seed": hseed, "ops": ops_h, "profile": profile, "event_index": img["k"], "ctx": ctx, "image_len": len(img["bytes"])})
        if len(rep["samples"]) < 2 and imgs:
            i = imgs[len(imgs) // 2]
            rep["samples"].append({"history_seed": hseed, "operations": [s["op"] for s in rec["states"]], "images": len(imgs), "example_crash_point": {"event": i["k"], "ctx": i["ctx"], "image_bytes": len(i["bytes"])}})
        shutil.rmtree(wd, ignore_errors=True)
    rep["counters"]["distinct_phases_with_crash_points"] = len(phases_seen)
    rep["counters"]["distinct_operation_kinds"] = len(ops_seen)
    rep["samples"].append({"phases_with_crash_points": sorted(phases_seen), "operation_kinds": sorted(ops_seen)})
    return [rep], [], {"assumptions": ["process-crash model: a completed system call is atomic and persists; calls are seen in program order",
                                       "the recorder's view equals the kernel's (an unmodelled call makes the history inconclusive)",
                                       "allowed states: inside operation j+1 -> {S_j, S_j+1}, between operations -> {S_j}; S_j holds every acknowledged operation, committed or still in the log"]}


def replay_crash(pid, detail, scratch):
    """Re-record the history of a stored witness and probe the same crash point again."""
    bindir = C.build()
    rec = X.record(bindir, detail["seed"], detail["ops"], scratch, profile=detail.get("profile", "crash"))
    if pid == "C02":
        imgs = [i for i in X.process_crash_images(rec) if i["k"] == detail["event_index"]]
        if not imgs:
            return None
        o = X.probe(bindir, [imgs[0]["bytes"]], os.path.join(scratch, "probe"))[0]
        v = X.judge(o, imgs[0]["ctx"], rec["states"])
        return None if v is None else _key("C02", v, imgs[0]["ctx"])
    return None
