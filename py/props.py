"""Per-property check plans. Each entry: level + run(pid, tier, seed, scratch) -> (reports, notes, extra)."""
import json
import os
import subprocess
import time

import common as C

PROPS = {}
MIRI_TARGET = os.path.join(C.HARNESS, "target-miri")


def main_bins():
    return C.build()


def miri_run(monitor, args, seeds, scratch, timeout=3000):
    """Run mvpure under Miri (UB + data-race interpreter), one process per seed, in parallel."""
    env = dict(C.ENV)
    env["MIRIFLAGS"] = "-Zmiri-disable-isolation"
    env["CARGO_TARGET_DIR"] = MIRI_TARGET
    base = ["cargo", "+nightly", "miri", "run", "--offline", "--no-default-features", "--features", "pure-simd",
            "--bin", "mvpure", "--"]
    # build once (first invocation compiles the interpreter sysroot + crates)
    t0 = time.time()
    warm = subprocess.run(base + ["c31", "--cases", "1", "--seed", "1", "--out", os.path.join(scratch, "miri-warm.json")],
                          cwd=C.HARNESS, env=env, stdout=subprocess.PIPE, stderr=subprocess.STDOUT, text=True)
    if warm.returncode != 0:
        return [], [f"miri warm-up failed: {warm.stdout[-800:]}"]
    C.log(f"[miri] interpreter build + warm-up {time.time() - t0:.0f}s")
    from concurrent.futures import ThreadPoolExecutor

    def one(sd):
        d = os.path.join(scratch, f"miri-{monitor}-{sd}")
        os.makedirs(d, exist_ok=True)
        out = os.path.join(scratch, f"miri-{monitor}-{sd}.json")
        argv = base + [monitor, "--seed", str(sd), "--scratch", d, "--under", "miri"] + [str(a) for a in args] + ["--out", out]
        try:
            p = subprocess.run(argv, cwd=C.HARNESS, env=env, stdout=subprocess.PIPE, stderr=subprocess.PIPE, timeout=timeout)
        except subprocess.TimeoutExpired:
            return None, f"miri watchdog {timeout}s: {monitor} seed {sd}"
        err = p.stderr.decode("utf-8", "replace")
        if "Undefined Behavior" in err or "error: " in err and "data race" in err.lower():
            # Miri's own finding: report as a violation of the property being run
            site = ""
            for line in err.splitlines():
                if "-->" in line and "/repo/" in line:
                    site = line.strip().split("-->")[-1].strip()
                    break
            return {"monitor": f"{monitor}@miri", "seed": sd, "evaluations": 1, "distinct_nontrivial": 0, "counters": {},
                    "samples": [], "rule": "", "required_counters": [],
                    "violations": [{"key": f"MIRI:undefined-behaviour:{site.split(':')[0] if site else 'unknown-site'}",
                                    "what": err[-1500:], "detail": {"mode": "miri", "argv": argv}}]}, ""
        if p.returncode != 0 or not os.path.exists(out):
            return None, f"miri run exited {p.returncode}: {err[-400:]}"
        with open(out) as f:
            return json.load(f), ""
    with ThreadPoolExecutor(max_workers=min(C.CORES, len(seeds))) as ex:
        res = list(ex.map(one, seeds))
    return [r for r, _ in res if r], [n for r, n in res if not r]


def pure_plan(level, quick, thorough, miri=None, design="", assumptions=None, custom=None):
    """quick/thorough: list of (monitor, args, shards). miri: (monitor, args, nseeds) for thorough."""
    def run(pid, tier, seed, scratch):
        bindir = main_bins()
        mvpure = os.path.join(bindir, "mvpure")
        reports, notes = [], []
        for monitor, args, shards in (quick if tier == "quick" else thorough):
            r, n = C.run_sharded(mvpure, monitor, args, shards, seed, scratch)
            reports += r
            notes += n
        extra = {"assumptions": assumptions or []}
        if custom:
            r, n = custom(pid, tier, seed, scratch, bindir)
            reports += r
            notes += n
        if tier == "thorough" and miri:
            monitor, args, nseeds = miri
            r, n = miri_run(monitor, args, [seed * 100 + i for i in range(nseeds)], scratch)
            reports += r
            notes += n
            extra["assumptions"].append("Miri runs interpret the same monitor on fewer cases; a clean Miri run covers only the code those cases reach")
        return reports, notes, extra
    return {"level": level, "run": run, "design": design}


# ---- C05: embedded WAL ---------------------------------------------------------------------
def _c05_sys(depth, max_states):
    def custom(pid, tier, seed, scratch, bindir):
        mvpure = os.path.join(bindir, "mvpure")
        reports, notes = [], []
        from concurrent.futures import ThreadPoolExecutor
        regions = [96, 100, 144, 150, 200, 256, 512]

        def one(region):
            d = os.path.join(scratch, f"c05sys-{region}")
            os.makedirs(d, exist_ok=True)
            return C.run_monitor([mvpure, "c05sys", "--seed", str(seed), "--depth", str(depth[tier]), "--regions", str(region),
                                  "--max-states", str(max_states[tier]), "--scratch", d],
                                 os.path.join(scratch, f"c05sys-{region}.json"), 3000, cwd=d)
        with ThreadPoolExecutor(max_workers=7) as ex:
            for r, n in ex.map(one, regions):
                if r:
                    reports.append(r)
                else:
                    notes.append(n)
        return reports, notes
    return custom


PROPS["C05"] = pure_plan(
    "exploration",
    quick=[("c05rand", ["--cases", 3000, "--histories", 6], 8)],
    thorough=[("c05rand", ["--cases", 40000, "--histories", 12], 16)],
    custom=_c05_sys({"quick": 5, "thorough": 7}, {"quick": 3000, "thorough": 60000}),
    miri=("c05sys", ["--depth", 3, "--regions", "100,200"], 2),
    design="C05",
    assumptions=["the systematic part is exhaustive only for the listed regions, the boundary-size alphabet and the stated depth",
                 "tmpfs-backed scratch file: fsync ordering is not part of this property (see C03)"],
)

PROPS["C30"] = pure_plan("exploration", [("c30", ["--cases", 40000], 8)], [("c30", ["--cases", 400000], 16)],
                         miri=("c30", ["--cases", 120], 8), design="C30")
PROPS["C31"] = pure_plan("exploration", [("c31", ["--cases", 100000], 8)], [("c31", ["--cases", 1500000], 16)],
                         miri=("c31", ["--cases", 150], 8), design="C31")
PROPS["C33"] = pure_plan("exploration", [("c33", ["--cases", 40000], 8)], [("c33", ["--cases", 600000], 16)],
                         miri=("c33", ["--cases", 150], 8), design="C33")
PROPS["C34"] = pure_plan("exploration", [("c34", ["--cases", 1500], 16)], [("c34", ["--cases", 30000], 16)], design="C34")
PROPS["C35"] = pure_plan("exploration", [("c35", ["--cases", 60000], 8)], [("c35", ["--cases", 1000000], 16)],
                         miri=("c35", ["--cases", 300], 8), design="C35")
PROPS["C36"] = pure_plan("exploration", [("c36", ["--cases", 30000], 8)], [("c36", ["--cases", 400000], 16)], design="C36")
PROPS["C37"] = pure_plan("exploration", [("c37", ["--cases", 60000], 8)], [("c37", ["--cases", 1000000], 16)],
                         miri=("c37", ["--cases", 400], 8), design="C37")
PROPS["C39"] = pure_plan("exploration", [("c39", ["--cases", 8000], 8)], [("c39", ["--cases", 120000], 16)],
                         miri=("c39", ["--cases", 60], 8), design="C39")


# ---- C32: parser totality needs subprocess probes for deep nesting --------------------------
def _c32_deep(pid, tier, seed, scratch, bindir):
    mvpure = os.path.join(bindir, "mvpure")
    depths = [10, 100, 1000, 5000, 20000, 100000] + ([1000000] if tier == "thorough" else [])
    kinds = ["paren", "not", "unbalanced", "mixed"]
    rep = {"monitor": "query-deep-nesting", "seed": seed, "evaluations": 0, "distinct_nontrivial": 0, "counters": {"deep_probes_ok": 0},
           "samples": [], "rule": "parse of nesting depth d for d in %s x %s, one process each with the default 8 MiB main-thread stack; a signal or panic exit is a violation" % (depths, kinds),
           "violations": [], "inconclusive": [], "required_counters": ["deep_probes_ok"]}
    for kind in kinds:
        for d in depths:
            rep["evaluations"] += 1
            try:
                p = subprocess.run([mvpure, "c32deep", "--kind", kind, "--depth", str(d)], stdout=subprocess.PIPE,
                                   stderr=subprocess.PIPE, timeout=300, env=C.ENV)
            except subprocess.TimeoutExpired:
                rep["inconclusive"].append({"case": f"{kind}:{d}", "reason": "watchdog 300s"})
                continue
            if p.returncode == 0:
                rep["counters"]["deep_probes_ok"] += 1
                rep["distinct_nontrivial"] += 1
            else:
                err = p.stderr.decode("utf-8", "replace")
                how = "stack-overflow" if "overflowed its stack" in err or p.returncode in (-11, -6, 134, 139) else f"exit-{p.returncode}"
                rep["violations"].append({"key": f"C32:{how}:nesting", "what": f"parse of {kind} nesting depth {d} ended with {how}: {err[-200:]}",
                                          "detail": {"mode": "c32deep", "kind": kind, "depth": d}})
                rep["counters"][f"violations[C32:{how}:nesting]"] = rep["counters"].get(f"violations[C32:{how}:nesting]", 0) + 1
                break  # deeper ones of this kind fail the same way
    rep["samples"].append({"kinds": kinds, "depths": depths})
    return [rep], []


PROPS["C32"] = pure_plan("exploration", [("c32", ["--cases", 20000], 8)], [("c32", ["--cases", 400000], 16)],
                         custom=_c32_deep, miri=("c32", ["--cases", 100], 8), design="C32")


# ---- C38: two configurations ------------------------------------------------------------------
def _c38_nosimd(pid, tier, seed, scratch, bindir):
    tdir = os.path.join(C.HARNESS, "target")
    try:
        bd = C.build(features="", bins=["mvpure"], target_dir=os.path.join(C.HARNESS, "target-nosimd"))
    except C.Inconclusive as e:
        return [], [f"no-simd build failed: {str(e)[-300:]}"]
    cases = 20000 if tier == "quick" else 400000
    shards = 4 if tier == "quick" else 16
    reports, notes = C.run_sharded(os.path.join(bd, "mvpure"), "c38", ["--cases", cases, "--under", "nosimd"], shards, seed, os.path.join(scratch))
    for r in reports:
        if r.get("counters", {}).get("simd_feature_on", 0) != 0:
            notes.append("no-simd build unexpectedly has the simd feature on")
    return reports, notes


PROPS["C38"] = pure_plan("exploration", [("c38", ["--cases", 20000], 4)], [("c38", ["--cases", 400000], 16)],
                         custom=_c38_nosimd, miri=("c38", ["--cases", 150], 4), design="C38",
                         assumptions=["two configurations: default build (simd via `wide`) and --no-default-features (scalar fallback); each judged against an f64 reference"])


# ---- E1 history driver properties -----------------------------------------------------------------
def drive_plan(level, mode, quick_args, thorough_args, quick_shards=16, thorough_shards=16, design="", assumptions=None,
               custom=None, timeout=3400):
    def run(pid, tier, seed, scratch):
        bindir = main_bins()
        mvdrive = os.path.join(bindir, "mvdrive")
        args = ["--property", pid] + (quick_args if tier == "quick" else thorough_args)
        shards = quick_shards if tier == "quick" else thorough_shards
        reports, notes = C.run_sharded(mvdrive, mode, args, shards, seed, scratch, timeout=timeout)
        # keep only this property's verdicts: the shared workload runs other monitors' invariants too
        for r in reports:
            foreign = [v for v in r.get("violations", []) if not v["key"].startswith(pid + ":")]
            r["violations"] = [v for v in r.get("violations", []) if v["key"].startswith(pid + ":")]
            for v in foreign:
                r.setdefault("counters", {})[f"other_property_violations[{v['key']}]"] = r["counters"].get(f"other_property_violations[{v['key']}]", 0) + 1
                r["counters"].pop(f"violations[{v['key']}]", None)
        extra = {"assumptions": list(assumptions or [])}
        if custom:
            r, n = custom(pid, tier, seed, scratch, bindir)
            reports += r
            notes += n
        return reports, notes, extra
    return {"level": level, "run": run, "design": design}


_HIST_ASSUME = ["crash-free executions only (crashes are C02-C04)", "features: default + encryption; PDF/XLSX/CLIP/Whisper/replay paths are not driven",
                "a history stops at its first violation, so later operations of that history are not judged"]
def _big_histories(pid, tier, seed, scratch, bindir):
    """Multi-megabyte payloads: block-wise code (8 MiB shift buffer of log growth, staging copy) sees more than one block."""
    n = 2 if tier == "quick" else 8
    args = ["--property", pid, "--big", "1", "--histories", 1]
    return C.run_sharded(os.path.join(bindir, "mvdrive"), "hist", args, n, seed + 7, os.path.join(scratch, "big"), timeout=3400)


PROPS["C01"] = drive_plan("exploration", "hist", ["--histories", 3, "--ops", 45], ["--histories", 60, "--ops", 70], assumptions=_HIST_ASSUME, custom=_big_histories)
PROPS["C06"] = drive_plan("exploration", "hist", ["--histories", 3, "--ops", 45], ["--histories", 60, "--ops", 70], assumptions=_HIST_ASSUME)
PROPS["C07"] = drive_plan("exploration", "hist", ["--histories", 3, "--ops", 35], ["--histories", 50, "--ops", 60], assumptions=_HIST_ASSUME, custom=_big_histories)
PROPS["C15"] = drive_plan("exploration", "c15", ["--histories", 4, "--ops", 30], ["--histories", 80, "--ops", 50], assumptions=_HIST_ASSUME + [
    "membership is required of Document-role frames only; other roles may appear but must respect the (timestamp, id) order"])


PROPS["C13"] = drive_plan("exploration", "c13", ["--cases", 5, "--max-m", 150], ["--cases", 60, "--max-m", 600],
                          assumptions=["default build only: the hnsw_bench configuration is approximate by design and C13 does not quantify over configurations",
                                       "a closer omitted frame counts only beyond a relative 1e-5 (f32 rounding); ties are never ordered"])


def _c14_hnsw(pid, tier, seed, scratch, bindir):
    try:
        bd = C.build(features="hnsw", bins=["mvdrive"], target_dir=os.path.join(C.HARNESS, "target-hnsw"))
    except C.Inconclusive as e:
        return [], [f"hnsw_bench build failed: {str(e)[-300:]}"]
    sizes = ["30,1001"] if tier == "quick" else ["1,2,120", "999", "1000", "1001", "1200", "30,1000"]
    reports, notes = [], []
    from concurrent.futures import ThreadPoolExecutor

    def one(i_s):
        i, s = i_s
        d = os.path.join(scratch, f"hnsw-{i}")
        os.makedirs(d, exist_ok=True)
        return C.run_monitor([os.path.join(bd, "mvdrive"), "c14", "--seed", str(seed * 1000 + 500 + i), "--sizes", s, "--scratch", d],
                             os.path.join(scratch, f"hnsw-{i}.json"), 3400, cwd=d)
    with ThreadPoolExecutor(max_workers=6) as ex:
        for r, n in ex.map(one, list(enumerate(sizes))):
            if r:
                reports.append(r)
            else:
                notes.append(n)
    return reports, notes


PROPS["C14"] = drive_plan("exploration", "c14", ["--sizes", "1,2,30,120"], ["--sizes", "1,2,30,120,400,999,1000,1001"], quick_shards=8, custom=_c14_hnsw,
                          assumptions=["two configurations: default build (exact index at every size) and hnsw_bench build (representation switch at 1000 vectors)",
                                       "embeddings are unique per put, so a self-query must return its own frame at distance <= 1e-6"])


PROPS["C24"] = drive_plan("exploration", "c24", ["--cases", 12], ["--cases", 80],
                          assumptions=["capacity is compared with absolute payload offsets (the code's and the repository test's definition)",
                                       "a history in which the log grows is re-baselined as inconclusive rather than judged"])
PROPS["C25"] = drive_plan("exploration", "c25", ["--cases", 12], ["--cases", 300],
                          assumptions=["signed-ticket acceptance is driven with a harness key pair installed through the cfg(memvid_verif) key override; without the override the embedded key must reject every harness signature",
                                       "unbind_memory (which resets the sequence) is outside the property's quantifier and is not driven"])


PROPS["C26"] = drive_plan("exploration", "c26", ["--histories", 5], ["--histories", 120],
                          assumptions=["a card is matched to its put through a unique name planted in the text; puts without an extractable triplet must produce no record"])


def _c27_pure(pid, tier, seed, scratch, bindir):
    mvpure = os.path.join(bindir, "mvpure")
    reports, notes = C.run_sharded(mvpure, "c27a", ["--cases", 4000 if tier == "quick" else 80000], 8 if tier == "quick" else 16, seed, scratch)
    if tier == "thorough":
        r, n = miri_run("c27a", ["--cases", 40], [seed * 100 + i for i in range(8)], scratch)
        reports += r
        notes += n
    return reports, notes


PROPS["C27"] = drive_plan("exploration", "c27b", ["--histories", 6], ["--histories", 150], custom=_c27_pure,
                          assumptions=["temporal part: ties between cards with the same effective time are not ordered by the reference",
                                       "persistence part compares every public card field and the Debug rendering of every mesh node and edge"])


_SEARCH_ASSUME = ["'searchable text' = the frame's stored search text (which includes uri/title/tag augmentation), else its content; the reference evaluator is independent of Tantivy and of the crate's evaluator",
                  "a response holds snippets, not frames: where a frame has several occurrences, completeness is judged over the exhaustively paginated stream"]
PROPS["C09"] = drive_plan("exploration", "c09", ["--corpora", 3, "--max-docs", 80], ["--corpora", 40, "--max-docs", 200], assumptions=_SEARCH_ASSUME)
PROPS["C10"] = drive_plan("exploration", "c10", ["--corpora", 2, "--queries", 40, "--max-docs", 40], ["--corpora", 30, "--queries", 150, "--max-docs", 120], assumptions=_SEARCH_ASSUME + [
    "a search that returns an error is counted, not judged (C10 is about hits)", "scope/uri filters are checked case-insensitively (the weaker reading)"])
PROPS["C11"] = drive_plan("exploration", "c11", ["--corpora", 2, "--queries", 40, "--max-docs", 40], ["--corpora", 30, "--queries", 150, "--max-docs", 120], assumptions=_SEARCH_ASSUME + [
    "'never adds a hit' is judged on frames: a filtered search may cut snippets differently but must not name a frame the unfiltered stream lacks"])
PROPS["C12"] = drive_plan("exploration", "c12", ["--corpora", 2, "--queries", 80, "--max-docs", 30], ["--corpora", 40, "--queries", 300, "--max-docs", 60], assumptions=[
    "reference policy written from the ACL documentation: deny unless metadata is complete and valid, tenant matches (trimmed, JSON-unquoted, case-insensitive) and the frame is public or lists the caller",
    "ask is driven in lexical, context-only mode (no model files offline)"])
PROPS["C16"] = drive_plan("exploration", "c16", ["--corpora", 2, "--queries", 20, "--max-docs", 80], ["--corpora", 30, "--queries", 80, "--max-docs", 200], assumptions=_SEARCH_ASSUME)
PROPS["C28"] = drive_plan("exploration", "c28", ["--corpora", 2, "--max-docs", 30], ["--corpora", 40, "--max-docs", 100], quick_shards=8, assumptions=_SEARCH_ASSUME + [
    "lexical results are compared as sets of (frame, range): BM25 statistics legitimately differ between segment layouts; vector and timeline results are compared as sequences"])


PROPS["C08"] = drive_plan("exploration", "c08", ["--histories", 4], ["--histories", 80], assumptions=_HIST_ASSUME + [
    "frame_by_uri may fall back to an inactive frame when the URI has no active version; it is judged only for returning the newest active version when one exists",
    "ask is driven in lexical, context-only mode"])
PROPS["C18"] = drive_plan("exploration", "c18", ["--histories", 10], ["--histories", 300], assumptions=[
    "a state with pending records is obtained by copying the file while a writer has un-committed puts (a crash image at an operation boundary)",
    "identical-byte rewrites would go unnoticed by the before/after hash (the recorder-based C02 machinery sees them)"])
PROPS["C40"] = drive_plan("exploration", "c40", ["--histories", 4], ["--histories", 80], assumptions=[
    "reference = the same documents ingested with plain puts and one commit", "lexical results compared as frame sets, vector results as id sequences"])
PROPS["C42"] = drive_plan("exploration", "c42", ["--histories", 5], ["--histories", 100], assumptions=_HIST_ASSUME + [
    "payload-reusing updates are applied to un-chunked documents only (for chunked ones the content is already lost before the vacuum: known C07 finding)"])


PROPS["C41"] = drive_plan("exploration", "c41", ["--histories", 5], ["--histories", 120], assumptions=[
    "schedules are sampled, not enumerated: pseudo-random sleeps/yields before each of the worker's lock acquisitions (cfg hook) and between foreground steps; the interleavings actually observed are counted from the merged event log",
    "the foreground never deletes or updates a queued document, so every queued frame stays active and any failed worker task is a finding",
    "'the worker stops when asked' is judged as: stop_and_wait returns within 30 s; 'every queued frame ends Enriched' as: within 30 s without progress after the foreground stopped (240 s watchdog => inconclusive)",
    "the handle is shared through the one Mutex the worker API prescribes; there is no unsynchronised shared state in memvid's own code for a race detector to look at"])


def _c29_run(pid, tier, seed, scratch):
    bindir = main_bins()
    mvdrive = os.path.join(bindir, "mvdrive")
    # one capsule size per process: key derivation (Argon2id, 64 MiB) dominates, ~0.15 s per unlock
    if tier == "quick":
        groups = ["4", "5", "1000", "1048575", "1048576", "1048577", "2097159", "70000"]
        extra = []
    else:
        groups = ["4", "5", "999", "1048575", "1048576", "1048577", "2097152", "2097159", "3145728", "3145733", "0", "77", "524288", "1500000", "2500000", "65536"]
        extra = ["--thorough"]
    from concurrent.futures import ThreadPoolExecutor

    def one(i_s):
        i, s = i_s
        d = os.path.join(scratch, f"cap-{i}")
        os.makedirs(d, exist_ok=True)
        return C.run_monitor([mvdrive, "c29", "--seed", str(seed * 1000 + i), "--sizes", s, "--scratch", d] + extra, os.path.join(scratch, f"cap-{i}.json"), 3400, cwd=d)
    reports, notes = [], []
    with ThreadPoolExecutor(max_workers=C.CORES) as ex:
        for r, n in ex.map(one, list(enumerate(groups))):
            if r:
                reports.append(r)
            else:
                notes.append(n)
    return reports, notes, {"assumptions": ["encryption feature build; password-based Argon2id + AES-256-GCM as shipped", "an accepted modification is reported in two classes: output differs from f / output identical to f"]}


PROPS["C29"] = {"level": "fault_enumeration", "run": _c29_run, "design": "C29"}


import crashchecks  # noqa: E402

import crashchecks2  # noqa: E402

PROPS["C02"] = {"level": "fault_enumeration", "run": crashchecks.c02, "design": "C02"}
PROPS["C03"] = {"level": "fault_enumeration", "run": crashchecks2.c03, "design": "C03"}
PROPS["C04"] = {"level": "fault_enumeration", "run": crashchecks2.c04, "design": "C04"}


import detcheck  # noqa: E402
import faults  # noqa: E402

PROPS["C20"] = {"level": "fault_enumeration", "run": faults.c20, "design": "C20"}
PROPS["C22"] = {"level": "exploration", "run": faults.c22, "design": "C22"}
PROPS["C21"] = {"level": "fault_enumeration", "run": faults.c21, "design": "C21"}

PROPS["C23"] = {"level": "exploration", "run": detcheck.c23, "design": "C23"}


def _c19_sidecar(pid, tier, seed, scratch, bindir):
    return C.run_sharded(os.path.join(bindir, "mvdrive"), "sidecar", ["--rounds", 2 if tier == "quick" else 20], 2 if tier == "quick" else 8, seed, scratch)


PROPS["C19"] = drive_plan("exploration", "hist", ["--histories", 3, "--ops", 45], ["--histories", 60, "--ops", 70], custom=_c19_sidecar,
                          assumptions=_HIST_ASSUME + ["$TMPDIR points outside the memory's directory (Tantivy's scratch directory is not part of the guarantee)"])


import sched  # noqa: E402

PROPS["C17"] = drive_plan("exploration", "hist", ["--histories", 3, "--ops", 45], ["--histories", 60, "--ops", 70], custom=sched.c17_schedules, assumptions=_HIST_ASSUME + [
    "lifetime probe: flock is per open file description, so a second descriptor opened on the path in the same process is a faithful stand-in for another process",
    "schedules: two real processes; an interleaving fixes the order in which steps are *started*; a blocked open (waiting for the lock, up to the library's 10 s) stays open in the history",
    "the TLA+ exploration mentioned in the property's quantifier is outside this technique family; what is claimed is the bounded enumeration of schedules of the real code"])


# ---- replay ----------------------------------------------------------------------------------
def replay(pid, spec, path, scratch, t0):
    with open(path) as f:
        rec = json.load(f)
    detail = rec.get("detail", {})
    mode = detail.get("mode", "")
    bindir = main_bins()
    mvpure = os.path.join(bindir, "mvpure")
    dfile = os.path.join(scratch, "detail.json")
    with open(dfile, "w") as f:
        json.dump(detail, f)
    out = os.path.join(scratch, "replay.json")
    if mode == "wal":
        argv = [mvpure, "c05replay", "--replay", dfile, "--scratch", scratch]
    elif mode == "c31":
        argv = [mvpure, "c31replay", "--replay", dfile]
    elif mode in ("c33", "c34", "c35", "c36"):
        argv = [mvpure, "replay", "--property", pid, "--replay", dfile]
    elif mode == "c32deep":
        p = subprocess.run([mvpure, "c32deep", "--kind", detail["kind"], "--depth", str(detail["depth"])], env=C.ENV)
        if p.returncode != 0:
            print(f"VIOLATION property={pid} replay={path}")
            return 1
        print(f"[{pid}] replay: not reproduced")
        return 0
    elif mode == "crash":
        key = crashchecks.replay_crash(pid, detail, scratch)
        if key:
            print(f"VIOLATION property={pid} replay={path}")
            print(f"  key={key}")
            return 1
        print(f"[{pid}] replay: not reproduced")
        return 0
    elif mode == "fault":
        keys = faults.replay(detail, scratch, pid)
        if rec.get("key") in keys:
            print(f"VIOLATION property={pid} replay={path}")
            print(f"  key={rec.get('key')}")
            return 1
        print(f"[{pid}] replay: not reproduced (keys seen: {keys})")
        return 0
    elif mode == "c17sched":
        keys = sched.replay(detail, scratch)
        if rec.get("key") in keys:
            print(f"VIOLATION property={pid} replay={path}")
            print(f"  key={rec.get('key')}")
            return 1
        print(f"[{pid}] replay: not reproduced (keys seen: {keys})")
        return 0
    elif mode == "c23":
        keys = detcheck.replay(detail, scratch)
        if rec.get("key") in keys:
            print(f"VIOLATION property={pid} replay={path}")
            print(f"  key={rec.get('key')}")
            return 1
        print(f"[{pid}] replay: not reproduced")
        return 0
    elif mode == "drive":
        argv = [os.path.join(bindir, "mvdrive"), detail.get("replay_mode", "replay"), "--property", pid, "--replay", dfile, "--scratch", scratch]
    else:
        # generic: re-run the recorded monitor process with its recorded seed
        argv = rec.get("argv") or detail.get("argv")
        if not argv:
            print(f"INCONCLUSIVE property={pid} run reason=replay file has no re-runnable command")
            return 3
        argv = [a for a in argv if a != "--out"]
    rep, note = C.run_monitor(argv, out, 3000, cwd=scratch)
    if rep is None:
        print(f"INCONCLUSIVE property={pid} run reason={note}")
        return 3
    keys = {v["key"] for v in rep.get("violations", []) if v["key"].startswith(pid + ":") or v["key"].startswith("MIRI:")}
    if keys:
        print(f"VIOLATION property={pid} replay={path}")
        for k in sorted(keys):
            print(f"  key={k}")
        return 1
    print(f"[{pid}] replay: not reproduced")
    return 0
