"""C03 (power loss) and C04 (crash during open-time recovery) runners."""
import os
import random
import shutil

import common as C
import crashchecks as K
import crashsim as X
import iolog


def c03(pid, tier, seed, scratch):
    bindir = C.build()
    X.ensure_shim()
    n_hist, ops, max_points, per_point, cap = (5, 10, 60, 8, 900) if tier == "quick" else (16, 25, None, 12, 5000)
    rep = K._report("crash-images[power-loss]", seed,
                    "same recorded histories as C02; per inode the content as of its last fsync plus the ordered un-synced writes/truncates, per directory the names as of the "
                    "last directory fsync plus pending name operations; at each crash point the fault choices {none survive, all survive, each single un-synced event dropped, "
                    "random subsets, last write torn at 512 / 4096 bytes} x {pending directory operations lost as a suffix}; each distinct image is opened by a probe process and "
                    "compared with the acknowledged state; a case is one probed image; distinct = distinct (image content, operation) pairs")
    rep["required_counters"] = ["images_probed", "images_with_unsynced_events", "fault_choices_none_survive", "histories"]
    rng = random.Random(seed)
    windows = []
    for h in range(n_hist):
        wd = os.path.join(scratch, f"p{h}")
        os.makedirs(wd, exist_ok=True)
        hseed = seed * 1000 + 300 + h
        wrap = h == n_hist - 1  # small incompressible records + frequent commits: the log wraps
        # one history is steered so that a pending record ends in the last 48 bytes of the log region (no room for a sentinel)
        edge = h == n_hist - 2
        profile, ops_h = ("wrap", 40) if wrap else ("edge", 40) if edge else ("crash", ops)
        try:
            rec = X.record(bindir, hseed, ops_h, wd, profile=profile)
        except C.Inconclusive as e:
            rep["inconclusive"].append({"case": f"history {hseed}", "reason": str(e)[:300]})
            continue
        K._count(rep, "histories")
        K._count(rep, "log_wraps_in_histories", X.count_wraps(rec["states"]))
        K._count(rep, "log_growths_in_histories", X.count_growths(rec["states"]))
        edge_ops = set()
        for e in rec.get("edge_ops", []):
            edge_ops.update((e, e + 1))
        if edge:
            K._count(rep, "records_steered_to_end_in_last_48_bytes_of_log_region", len(rec.get("edge_ops", [])))
        imgs = []
        for img in X.power_loss_images(rec, rng, per_point=per_point, max_points=max_points, keep_ops=edge_ops):
            imgs.append(img)
            if len(imgs) >= cap // n_hist and img["ctx"]["op_index"] not in edge_ops:
                break
        obs = X.probe(bindir, [i["bytes"] for i in imgs], os.path.join(wd, "probe"))
        for img, o in zip(imgs, obs):
            rep["evaluations"] += 1
            rep["distinct_nontrivial"] += 1
            K._count(rep, "images_probed")
            K._count(rep, "fault_choices_" + img["fault"].split("+")[0].split("-last-write")[0].replace("-", "_"))
            if img["unsynced"]:
                K._count(rep, "images_with_unsynced_events")
                windows.append(img["unsynced"])
            if "directory-ops-lost" in img["fault"]:
                K._count(rep, "images_with_lost_directory_operations")
            verdict = X.judge(o, img["ctx"], rec["states"])
            if verdict is None:
                continue
            if verdict[0] == "timeout":
                rep["inconclusive"].append({"case": f"history {hseed} event {img['k']}", "reason": "probe watchdog"})
                continue
            fault_family = img["fault"].split("+")[0]
            key = K._key("C03", verdict, img["ctx"]) + (":synced-state" if fault_family in ("none-survive",) else "")
            K._violation(rep, key, f"history seed {hseed}, power loss after event {img['k']}, fault '{img['fault']}' ({img['unsynced']} un-synced events): {verdict[1]}",
                         {"mode": "crash", "property": "C03", "seed": hseed, "ops": ops_h, "profile": profile, "event_index": img["k"], "fault": img["fault"], "ctx": img["ctx"]})
        if len(rep["samples"]) < 2 and imgs:
            i = imgs[len(imgs) // 2]
            rep["samples"].append({"history_seed": hseed, "images": len(imgs), "example": {"event": i["k"], "ctx": i["ctx"], "fault": i["fault"], "unsynced_events": i["unsynced"]}})
        shutil.rmtree(wd, ignore_errors=True)
    if windows:
        rep["counters"]["max_unsynced_window"] = max(windows)
    return [rep], [], {"assumptions": ["disk fault model (an assumption, not a fact about any device): un-synced writes of a file may be lost independently of each other, a write may be torn at a 512- or 4096-byte boundary, "
                                       "un-synced directory operations are lost as a suffix, fsync makes a file's content durable and fsync of the directory makes names durable",
                                       "sector-level reordering inside one 512-byte block and file-system journalling effects are out of reach",
                                       "oracle as C02: every acknowledged operation present, optionally the in-flight one"]}


def c04(pid, tier, seed, scratch):
    bindir = C.build()
    X.ensure_shim()
    n_hist, ops, n_seed_imgs, nested = (4, 10, 8, 4) if tier == "quick" else (10, 20, 30, 6)
    rep = K._report("crash-during-recovery", seed,
                    "crash images of C02 that open but need work at open time (pending log records) are opened under the recorder; the result of that uninterrupted open is the baseline; "
                    "every prefix of the open's own mutation stream is a new image that a later uninterrupted open must recover to the baseline; nested to depth 3 (sampled); re-opening the "
                    "recovered file must change no frame; a case is one probed image; distinct = distinct images")
    rep["required_counters"] = ["seed_images_needing_recovery", "recovery_prefix_images_probed", "idempotence_checks", "histories"]
    rng = random.Random(seed)
    phases = set()
    for h in range(n_hist):
        wd = os.path.join(scratch, f"r{h}")
        os.makedirs(wd, exist_ok=True)
        hseed = seed * 1000 + 600 + h
        # the first history is the fixed put/put/put/commit/delete/update sequence (pending tombstone and update records)
        tomb = h == 0
        try:
            rec = X.record(bindir, hseed, 6 if tomb else ops, wd, profile="tomb" if tomb else "crash")
        except C.Inconclusive as e:
            rep["inconclusive"].append({"case": f"history {hseed}", "reason": str(e)[:300]})
            continue
        K._count(rep, "histories")
        # candidate seed images: operation boundaries right after put/update/delete (records pending)
        cands = [i for i in X.process_crash_images(rec) if not i["ctx"]["inside"] and i["ctx"]["op"] in ("put", "update", "delete")]
        rng.shuffle(cands)
        # one seed image per kind of pending record first (insert, update, tombstone), then the rest
        firsts, seen_ops = [], set()
        for c in cands:
            if c["ctx"]["op"] not in seen_ops:
                seen_ops.add(c["ctx"]["op"])
                firsts.append(c)
        firsts.sort(key=lambda c: {"delete": 0, "update": 1}.get(c["ctx"]["op"], 2))  # tombstones and updates are the rarer seeds
        cands = firsts + [c for c in cands if c not in firsts]
        used = 0
        for img in cands:
            if used >= max(1, n_seed_imgs // n_hist):
                break
            owd = os.path.join(wd, f"open{used}")
            os.makedirs(owd, exist_ok=True)
            base_obs, evs, final = X.record_open(bindir, img["bytes"], owd)
            target = os.path.join(os.path.realpath(os.path.join(owd, "mem")), "mem.mv2")
            muts = [e for e in evs if e["kind"] in ("write", "trunc", "rename")]
            if base_obs.get("open") != "ok" or not muts:
                continue  # did not open (C02's business) or needed no recovery writes
            used += 1
            K._count(rep, "seed_images_needing_recovery")
            K._count(rep, f"seed_images_after[{img['ctx']['op']}]")
            base_docs = X.docs_of(base_obs)
            # idempotence: open the recovered file again
            if final is not None:
                again = X.probe(bindir, [final], os.path.join(owd, "again"))[0]
                K._count(rep, "idempotence_checks")
                rep["evaluations"] += 1
                if again.get("open") != "ok" or X.docs_of(again) != base_docs:
                    K._violation(rep, "C04:second-open-changes-frames", f"history seed {hseed}: opening the recovered file again gives {again.get('open')} / different documents",
                                 {"mode": "crash", "property": "C04", "seed": hseed, "ops": 6 if tomb else ops, "profile": "tomb" if tomb else "crash", "event_index": img["k"]})
            level = [(img["bytes"], evs, target, 1)]
            while level:
                nxt = []
                for image, events, tgt, depth in level:
                    pref = X.open_prefix_images(image, events, tgt)
                    if depth > 1 and len(pref) > nested:
                        pref = rng.sample(pref, nested)
                    obs = X.probe(bindir, [p["bytes"] for p in pref], os.path.join(owd, f"d{depth}"))
                    for p, o in zip(pref, obs):
                        rep["evaluations"] += 1
                        rep["distinct_nontrivial"] += 1
                        K._count(rep, "recovery_prefix_images_probed")
                        K._count(rep, f"recovery_prefix_images_depth_{depth}")
                        ph = (p["ctx"].get("phases") or ["-"])
                        phases.add(ph[0])
                        site = next((x for x in ph if x in K.IN_PLACE), ph[0])
                        if o.get("open") != "ok":
                            # the error class is part of the key: "no TOC to be found" (the known in-place rewrite) and, say,
                            # "a replayed record is refused" are different defects of the same code site
                            fam = f"open-error:{o.get('kind')}" if o.get("open") == "err" else (o.get("open") or "?")
                            K._violation(rep, f"C04:{fam}:crash-inside={site}", f"history seed {hseed}, crash inside open-time recovery (depth {depth}) after its event {p['k']} ({p['event']}): {o.get('error') or o.get('message') or o.get('stderr', '')}"[:400],
                                         {"mode": "crash", "property": "C04", "seed": hseed, "ops": 6 if tomb else ops, "profile": "tomb" if tomb else "crash", "event_index": img["k"], "recovery_event": p["k"], "depth": depth})
                            continue
                        if X.docs_of(o) != base_docs:
                            why = X.match_state(X.docs_of(o), [{"uri": d["uri"], "status": d["status"], "content": None} for d in base_docs])
                            cls = why[0] if why else "content-differs"
                            K._violation(rep, f"C04:recovers-to-different-state:{cls}:crash-inside={site}", f"history seed {hseed}, crash inside recovery (depth {depth}) after its event {p['k']}: {why or 'content differs'}",
                                         {"mode": "crash", "property": "C04", "seed": hseed, "ops": 6 if tomb else ops, "profile": "tomb" if tomb else "crash", "event_index": img["k"], "recovery_event": p["k"], "depth": depth})
                            continue
                        if depth < 3:
                            nwd = os.path.join(owd, f"n{depth}-{p['k']}")
                            os.makedirs(nwd, exist_ok=True)
                            o2, e2, _ = X.record_open(bindir, p["bytes"], nwd)
                            t2 = os.path.join(os.path.realpath(os.path.join(nwd, "mem")), "mem.mv2")
                            if o2.get("open") == "ok" and any(e["kind"] in ("write", "trunc") for e in e2):
                                nxt.append((p["bytes"], e2, t2, depth + 1))
                            shutil.rmtree(nwd, ignore_errors=True)
                if len(nxt) > nested:
                    nxt = rng.sample(nxt, nested)
                level = nxt
            if len(rep["samples"]) < 2:
                rep["samples"].append({"history_seed": hseed, "seed_image_after": img["ctx"], "recovery_mutations": len(muts), "baseline_documents": len(base_docs)})
            shutil.rmtree(owd, ignore_errors=True)
        shutil.rmtree(wd, ignore_errors=True)
    rep["samples"].append({"recovery_phases_with_crash_points": sorted(phases)})
    return [rep], [], {"assumptions": ["process-crash model inside the open (completed calls persist)", "baseline = one uninterrupted open of the same image; frames are compared at document level (uri, status, content digest)",
                                       "second and third nesting levels are sampled"]}
