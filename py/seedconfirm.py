#!/usr/bin/env python3
"""Confirm a seeded regression in a scratch worktree (never in /repo): the demonstration passes on the unchanged
tree, fails with the patch, and the repository's own test suite still passes with the patch.
usage: py/seedconfirm.py <worktree> <target-dir> seeded/<id> [...]"""
import json
import os
import shutil
import subprocess
import sys
import time


def sh(cmd, cwd, env, timeout=5400):
    try:
        p = subprocess.run(cmd, cwd=cwd, env=env, stdout=subprocess.PIPE, stderr=subprocess.STDOUT, text=True, timeout=timeout)
        return p.returncode, p.stdout
    except subprocess.TimeoutExpired as e:
        return 124, (e.stdout or "") if isinstance(e.stdout, str) else ""


def main():
    wt, target = sys.argv[1], sys.argv[2]
    env = dict(os.environ, CARGO_NET_OFFLINE="true", CARGO_TARGET_DIR=target, CARGO_BUILD_JOBS="6")
    env.pop("RUSTFLAGS", None)
    for d in sys.argv[3:]:
        d = os.path.abspath(d)
        t0 = time.time()
        res = {}
        sh(["git", "checkout", "--", "."], wt, env)
        for f in os.listdir(os.path.join(wt, "tests")):
            if f.startswith("seeded_"):
                os.remove(os.path.join(wt, "tests", f))
        patch = os.path.join(d, "patch.ported.diff") if os.path.exists(os.path.join(d, "patch.ported.diff")) else os.path.join(d, "patch.diff")
        demo = os.path.join(wt, "tests", "seeded_demo.rs")
        meta = json.load(open(os.path.join(d, "meta.json")))
        feats = ["--features", "encryption"] if "--features encryption" in json.dumps(meta) else []
        unit_demo = os.path.exists(os.path.join(d, "demo_full.diff"))  # demonstration is a unit-test module inside the crate
        if unit_demo:
            sh(["git", "apply", os.path.join(d, "demo_full.diff")], wt, env)
            demo_cmd = ["cargo", "test", "--offline", "--lib", "seeded_"] + feats
        else:
            shutil.copy(os.path.join(d, "demo.rs"), demo)
            demo_cmd = ["cargo", "test", "--offline", "--test", "seeded_demo"] + feats
        rc, out = sh(demo_cmd, wt, env)
        if unit_demo and "running 0 tests" in out and "test result: ok. 0 passed" in out:
            rc = 1  # the filter matched nothing: not a confirmation
        res["demo_passes_without_change"] = rc == 0
        res["demo_without_tail"] = out.strip().splitlines()[-3:]
        rc, out = sh(["git", "apply", patch], wt, env)
        res["patch_applies"] = rc == 0
        if rc == 0:
            rc, out = sh(demo_cmd, wt, env)
            res["demo_fails_with_change"] = rc != 0 and "error: could not compile" not in out
            res["demo_with_tail"] = [l for l in out.strip().splitlines() if "panicked" in l or "test result" in l][-3:]
            if unit_demo:
                # take the demonstration out again, keep the change
                sh(["git", "apply", "-R", os.path.join(d, "demo_full.diff")], wt, env)
            else:
                os.remove(demo)
            rc, out = sh(["cargo", "test", "--workspace", "--no-fail-fast", "--offline"], wt, env)
            lines = [l for l in out.splitlines() if l.startswith("test result")]
            passed = sum(int(l.split()[3]) for l in lines)
            failed = sum(int(l.split()[5]) for l in lines)
            failed_tests = [l for l in out.splitlines() if l.startswith("test ") and l.endswith("FAILED")][:10]
            res["suite_with_change"] = {"exit": rc, "passed": passed, "failed": failed, "failed_tests": failed_tests}
            # the repository has one wall-clock assertion (< 10 ms in a debug build) that fails on a loaded machine: re-run it alone
            if failed_tests and all("test_sketch_candidate_speed" in t for t in failed_tests):
                ok = False
                for _ in range(3):
                    rc2, out2 = sh(["cargo", "test", "--offline", "--lib", "test_sketch_candidate_speed"], wt, env)
                    if rc2 == 0:
                        ok = True
                        break
                res["suite_with_change"]["timing_test_alone_passes"] = ok
        sh(["git", "checkout", "--", "."], wt, env)
        sh(["git", "clean", "-fdq", "src", "tests"], wt, env)
        res["patch_used"] = os.path.basename(patch)
        res["head"] = subprocess.run(["git", "-C", wt, "log", "--format=%h", "-1"], stdout=subprocess.PIPE, text=True).stdout.strip()
        res["wall_s"] = round(time.time() - t0)
        json.dump(res, open(os.path.join(d, "confirm.json"), "w"), indent=1)
        print(os.path.basename(d), json.dumps({k: v for k, v in res.items() if "tail" not in k}))


if __name__ == "__main__":
    main()
