"""Engine E2: crash / power-loss images from a recorded syscall stream, judged against the document
states the history driver wrote for every operation. Used by C02 (process crash), C03 (power loss)
and C04 (crash during open-time recovery)."""
import json
import os
import random
import shutil
import subprocess
from concurrent.futures import ThreadPoolExecutor

import common as C
import iolog

SHIM = os.path.join(C.VERIF, "shim", "iorec.so")


def ensure_shim():
    if not os.path.exists(SHIM) or os.path.getmtime(SHIM) < os.path.getmtime(os.path.join(C.VERIF, "shim", "iorec.c")):
        p = subprocess.run(["make", "-C", os.path.join(C.VERIF, "shim")], stdout=subprocess.PIPE, stderr=subprocess.STDOUT, text=True)
        if p.returncode != 0:
            raise C.Inconclusive("cannot build shim/iorec.so: " + p.stdout[-500:])
    return SHIM


def record(bindir, seed, ops, workdir, profile="crash", name="mem.mv2", extra_env=None, extra_args=None):
    """Run one history under the recorder. Returns dict(dir, target, events, states, history) or raises."""
    d = os.path.join(workdir, "mem")
    tmp = os.path.join(workdir, "tmp")
    for p in (d, tmp):
        shutil.rmtree(p, ignore_errors=True)
        os.makedirs(p)
    log = os.path.join(workdir, "io.log")
    states = os.path.join(workdir, "states.json")
    for p in (log, states):
        if os.path.exists(p):
            os.remove(p)
    env = dict(C.ENV, IOREC_DIR=d, IOREC_LOG=log, LD_PRELOAD=ensure_shim(), TMPDIR=tmp)
    if extra_env:
        env.update(extra_env)
    argv = [os.path.join(bindir, "mvdrive"), "runhist", "--seed", str(seed), "--ops", str(ops), "--dir", d, "--name", name,
            "--states", states, "--profile", profile, "--out", os.path.join(workdir, "rep.json")] + (extra_args or [])
    try:
        p = subprocess.run(argv, env=env, stdout=subprocess.PIPE, stderr=subprocess.PIPE, timeout=600)
    except subprocess.TimeoutExpired:
        raise C.Inconclusive("recorded history timed out")
    if p.returncode != 0 or not os.path.exists(states):
        raise C.Inconclusive(f"recorded history failed ({p.returncode}): {p.stderr.decode('utf-8', 'replace')[-300:]}")
    with open(states) as f:
        st = json.load(f)
    events = iolog.read_log(log)
    unsupported = [e["name"] for e in events if e["kind"] == "unsupported"]
    if unsupported:
        raise C.Inconclusive(f"recorder met an event it cannot model: {unsupported[:3]}")
    real_d = os.path.realpath(d)
    return {"dir": real_d, "target": os.path.join(real_d, name), "events": events, "states": st["states"], "history": st["history"], "edge_ops": st.get("edge_ops", []),
            "final_bytes": open(os.path.join(d, name), "rb").read() if os.path.exists(os.path.join(d, name)) else None, "seed": seed}


def count_wraps(states):
    """Times the log's write head moved back to the region start between two operations (same region size)."""
    n, prev = 0, None
    for st in states:
        w = st.get("wal")
        if w and prev and w["wal_size"] == prev["wal_size"] and w["write_head"] < prev["write_head"] and w["sequence"] > prev["sequence"]:
            n += 1
        if w:
            prev = w
    return n


def count_growths(states):
    n, prev = 0, None
    for st in states:
        w = st.get("wal")
        if w and prev and w["wal_size"] > prev["wal_size"]:
            n += 1
        if w:
            prev = w
    return n


def annotate(events):
    """Attach (op_index, op name, inside_op, phase stack) to every event."""
    op_i, op_name, inside = -1, "", False
    phases = []
    for ev in events:
        if ev["kind"] == "mark":
            t = ev["name"].split(" ")
            if t[0] == "OP_BEGIN":
                op_i, op_name, inside = int(t[1]), t[2] if len(t) > 2 else "", True
            elif t[0] == "OP_END":
                inside = False
            elif t[0] == "PHASE_ENTER":
                phases.append(t[1])
            elif t[0] == "PHASE_EXIT" and phases:
                phases.pop()
        ev["ctx"] = {"op_index": op_i, "op": op_name, "inside": inside, "phase": phases[-1] if phases else "-", "phases": list(phases)}
    return events


def process_crash_images(rec, limit=None, rng=None, keep_ops=()):
    """Process-crash model: state after each mutating event (completed syscalls persist).
    Returns list of dict(k, bytes, ctx) de-duplicated by image content + allowed states."""
    fs = iolog.FS()
    seen = set()
    out = []
    events = annotate(rec["events"])
    for k, ev in enumerate(events):
        if ev["kind"] in ("mark", "fsync", "dirsync", "close", "flock"):
            continue
        if not fs.apply(ev):
            continue
        img = fs.content(rec["target"])
        if img is None:
            continue
        ctx = ev["ctx"]
        key = (iolog.digest(img), ctx["op_index"], ctx["inside"])
        if key in seen:
            continue
        seen.add(key)
        out.append({"k": k, "bytes": img, "ctx": dict(ctx), "event": ev["kind"]})
    if limit and len(out) > limit:
        rng = rng or random.Random(0)
        # keep every operation boundary and a uniform sample of the interior points
        keep = [i for i, x in enumerate(out) if not x["ctx"]["inside"] or x["ctx"]["op_index"] in keep_ops]
        rest = [i for i in range(len(out)) if i not in set(keep)]
        rng.shuffle(rest)
        chosen = sorted(set(keep + rest[:max(0, limit - len(keep))]))
        out = [out[i] for i in chosen]
    return out


def probe(bindir, images, workdir, how="open", timeout=120, queries=None):
    """Write each image to scratch and open it with mvprobe (one process per image batch, restarted
    on death). Returns a list of observation dicts aligned with `images`."""
    os.makedirs(workdir, exist_ok=True)
    mvprobe = os.path.join(bindir, "mvprobe")
    paths = []
    for i, img in enumerate(images):
        p = os.path.join(workdir, f"img-{i}.mv2")
        with open(p, "wb") as f:
            f.write(img)
        paths.append(p)
    qarg = ["--queries", ",".join(queries)] if queries else []

    def run_one(p):
        tmp = p + ".tmp"
        os.makedirs(tmp, exist_ok=True)
        env = dict(C.ENV, TMPDIR=tmp)
        try:
            r = subprocess.run([mvprobe, "obs", "--how", how, p] + qarg, env=env, stdout=subprocess.PIPE, stderr=subprocess.PIPE, timeout=timeout)
        except subprocess.TimeoutExpired:
            shutil.rmtree(tmp, ignore_errors=True)
            return {"open": "timeout", "path": p}
        shutil.rmtree(tmp, ignore_errors=True)
        err = r.stderr.decode("utf-8", "replace")
        site = ""
        for line in err.splitlines():
            if line.startswith("PANIC-AT "):
                site = line[len("PANIC-AT "):].strip()
        try:
            obs = json.loads(r.stdout.decode("utf-8", "replace").strip().splitlines()[-1])
        except Exception:  # noqa: BLE001
            obs = {"open": "died", "returncode": r.returncode, "stderr": err[-300:]}
        if site:
            obs["panic_site"] = site
        return obs
    with ThreadPoolExecutor(max_workers=C.CORES) as ex:
        res = list(ex.map(run_one, paths))
    for p in paths:
        for q in (p,):
            try:
                os.remove(q)
            except OSError:
                pass
    return res


def docs_of(obs):
    """Document-level view of an observation: non-chunk frames in id order."""
    out = []
    for f in obs.get("frames", []):
        if f.get("role") == "DocumentChunk":
            continue
        out.append({"uri": f.get("uri"), "status": f.get("status"), "payload": f.get("payload"), "err": f.get("err")})
    return out


def match_state(obs_docs, state_docs):
    """None if the observation equals the expected document state, else (class, detail)."""
    if len(obs_docs) < len(state_docs):
        return ("missing-acknowledged", f"{len(obs_docs)} documents visible, {len(state_docs)} acknowledged")
    if len(obs_docs) > len(state_docs):
        return ("extra-documents", f"{len(obs_docs)} documents visible, {len(state_docs)} expected")
    for i, (o, s) in enumerate(zip(obs_docs, state_docs)):
        if o["uri"] != s["uri"]:
            return ("uri-differs", f"document {i}: {o['uri']} vs {s['uri']}")
        if o["status"] != s["status"]:
            return ("status-differs", f"document {i} ({s['uri']}): {o['status']} vs {s['status']}")
        c = s.get("content")
        if s["status"] == "Active" and c:
            p = o.get("payload") or {}
            if "err" in p or o.get("err"):
                return ("content-unreadable", f"document {i} ({s['uri']}): {p.get('err') or o.get('err')}")
            if c["kind"] == "whole" or c.get("exact"):
                if p.get("b3") != c["b3"] or p.get("len") != c["len"]:
                    return ("content-differs", f"document {i} ({s['uri']}): {p.get('len')} bytes {p.get('b3')} vs {c['len']} bytes {c['b3']}")
            elif not p.get("len"):
                return ("content-differs", f"document {i} ({s['uri']}): empty, expected a chunked document of about {c['len']} bytes")
    return None


def judge(obs, ctx, states):
    """Judge one crash image. Returns None (held) or (class, detail)."""
    status = obs.get("open")
    if status == "timeout":
        return ("timeout", "probe exceeded its watchdog")
    if status == "died":
        rc = obs.get("returncode")
        return (f"abort:{rc}", obs.get("stderr", "")[-200:])
    if status == "panic":
        site = obs.get("panic_site", "").replace("/repo/", "")
        return (f"panic:{site or 'unknown'}", obs.get("message", "")[:200])
    if status == "err":
        return (f"open-error:{obs.get('kind')}", obs.get("error", "")[:200])
    i = ctx["op_index"]
    allowed = []
    if ctx["inside"]:
        if i - 1 >= 0:
            allowed.append(states[i - 1]["docs"])
        else:
            allowed.append([])
        if i < len(states):
            allowed.append(states[i]["docs"])
    else:
        allowed.append(states[i]["docs"] if 0 <= i < len(states) else [])
    od = docs_of(obs)
    results = [match_state(od, a) for a in allowed]
    if any(r is None for r in results):
        return None
    # a multi-record put that is only partly visible: more than the old state, less than the new one
    if ctx["inside"] and len(allowed) == 2 and len(allowed[0]) < len(od) <= len(allowed[1]) and results[1] and results[1][0] in ("content-unreadable", "content-differs"):
        return ("partial-put", results[1][1])
    # report against the allowed state with the same number of documents, if there is one: an image that shows the old state with
    # one damaged document is "content unreadable", not "the in-flight operation's document is missing"
    for a, r in zip(allowed, results):
        if len(a) == len(od):
            return r
    return results[-1]


# ---------------------------------------------------------------------------------- power loss

def power_loss_images(rec, rng, per_point=12, max_points=None, keep_ops=()):
    """Power-loss model. Per inode: durable content as of its last fsync plus the ordered list of
    un-synced writes/truncates; per directory: names as of the last directory fsync plus pending
    name operations. At a crash point a fault choice selects which un-synced events survive.
    Yields dict(k, bytes, ctx, fault)."""
    events = annotate(rec["events"])
    target = rec["target"]
    vol = iolog.FS()                      # what a process crash would leave (everything applied)
    durable_inodes = {}                   # ino -> bytes as of last fsync
    unsynced = {}                         # ino -> [event, ...]
    durable_names = {}
    pending_names = []                    # name events since last dirsync
    points = []
    for k, ev in enumerate(events):
        kind = ev["kind"]
        if kind in ("write", "trunc"):
            vol.apply(ev)
            unsynced.setdefault(ev["ino"], []).append(ev)
        elif kind in ("open", "rename", "unlink", "link"):
            if vol.apply(ev):
                pending_names.append(ev)
        elif kind == "fsync":
            durable_inodes[ev["ino"]] = bytes(vol.inodes.get(ev["ino"], b""))
            unsynced[ev["ino"]] = []
        elif kind == "dirsync":
            durable_names = dict(vol.names)
            pending_names = []
        else:
            continue
        if kind in ("write", "trunc", "rename", "fsync", "dirsync", "unlink"):
            points.append((k, dict(ev["ctx"]), {i: list(v) for i, v in unsynced.items() if v}, dict(durable_inodes), dict(durable_names), list(pending_names)))
    if max_points and len(points) > max_points:
        boundary = [p for p in points if not p[1]["inside"]]
        interior = [p for p in points if p[1]["inside"]]
        rng.shuffle(interior)
        # crash points of the operations the history was steered towards (keep_ops) are never sampled away
        kept = [p for p in points if p[1]["op_index"] in keep_ops]
        interior = [p for p in interior if p[1]["op_index"] not in keep_ops]
        boundary = [p for p in boundary if p[1]["op_index"] not in keep_ops]
        points = sorted(kept + boundary[:max_points // 2] + interior[:max_points - min(len(boundary), max_points // 2)], key=lambda p: p[0])
    seen = set()
    for k, ctx, uns, dur, dnames, pnames in points:
        # which inode does the target name reach, for every surviving prefix of the pending name ops
        for s in range(len(pnames), -1, -1):
            names = iolog.FS()
            names.names = dict(dnames)
            for ev in pnames[:s]:
                names.apply(ev)
            ino = names.names.get(target)
            if ino is None:
                continue
            base = bytearray(dur.get(ino, b""))
            evs = uns.get(ino, [])
            choices = [("none-survive", [])]
            if evs:
                choices.append(("all-survive", list(range(len(evs)))))
                for j in range(min(len(evs), 12)):
                    choices.append((f"drop-one", [i for i in range(len(evs)) if i != j]))
                for _ in range(min(per_point, 6)):
                    choices.append(("random-subset", [i for i in range(len(evs)) if rng.random() < 0.5]))
                last = evs[-1]
                if last["kind"] == "write" and len(last["data"]) > 512:
                    for cut in (512, 4096):
                        if len(last["data"]) > cut:
                            choices.append((f"torn-last-write-{cut}", ("torn", cut)))
            for fault, sel in choices[:per_point + 4]:
                f = iolog.FS()
                f.inodes[ino] = bytearray(base)
                if isinstance(sel, tuple):
                    for e in evs[:-1]:
                        f.apply(e)
                    torn = dict(evs[-1])
                    torn["data"] = torn["data"][:sel[1]]
                    f.apply(torn)
                else:
                    for i in sel:
                        f.apply(evs[i])
                img = bytes(f.inodes[ino])
                key = (iolog.digest(img), ctx["op_index"], ctx["inside"])
                if key in seen:
                    continue
                seen.add(key)
                name_note = "" if s == len(pnames) else f"+last-{len(pnames) - s}-directory-ops-lost"
                yield {"k": k, "bytes": img, "ctx": ctx, "fault": fault + name_note, "unsynced": len(evs)}


# ---------------------------------------------------------------------------------- recovery (C04)

def record_open(bindir, image, workdir):
    """Open one image under the recorder; returns (observation, events of that open)."""
    d = os.path.join(workdir, "mem")
    tmp = os.path.join(workdir, "tmp")
    for p in (d, tmp):
        shutil.rmtree(p, ignore_errors=True)
        os.makedirs(p)
    path = os.path.join(d, "mem.mv2")
    with open(path, "wb") as f:
        f.write(image)
    log = os.path.join(workdir, "open.log")
    if os.path.exists(log):
        os.remove(log)
    env = dict(C.ENV, IOREC_DIR=d, IOREC_LOG=log, LD_PRELOAD=ensure_shim(), TMPDIR=tmp)
    try:
        r = subprocess.run([os.path.join(bindir, "mvprobe"), "obs", path, "--how", "open", "--marks"], env=env, stdout=subprocess.PIPE, stderr=subprocess.PIPE, timeout=120)
        obs = json.loads(r.stdout.decode("utf-8", "replace").strip().splitlines()[-1])
    except Exception as e:  # noqa: BLE001
        return {"open": "died", "stderr": str(e)[:200]}, [], None
    events = iolog.read_log(log) if os.path.exists(log) else []
    final = open(path, "rb").read() if os.path.exists(path) else None
    return obs, events, final


def open_prefix_images(image, events, target):
    """Images after every mutating event of a recorded open, starting from `image`."""
    fs = iolog.FS()
    events = annotate(events)
    out, seen = [], set()
    started = False
    for k, ev in enumerate(events):
        if ev["kind"] == "open" and not started and ev["name"] == target:
            fs.inodes[ev["ino"]] = bytearray(image)
            fs.names[target] = ev["ino"]
            started = True
            continue
        if ev["kind"] in ("mark", "fsync", "dirsync", "close", "flock"):
            continue
        if not fs.apply(ev):
            continue
        img = fs.content(target)
        if img is None:
            continue
        h = iolog.digest(img)
        if h in seen:
            continue
        seen.add(h)
        out.append({"k": k, "bytes": img, "ctx": dict(ev["ctx"]), "event": ev["kind"]})
    return out
