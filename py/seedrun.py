#!/usr/bin/env python3
"""Run the registered check(s) of a seeded regression's property against /repo with the patch applied.

usage: py/seedrun.py seeded/<id> [--tier quick|thorough] [--also C01,C05] [--seed N]

The patch is applied with `git -C /repo apply`, the check runs, and the tree is restored with
`git -C /repo checkout -- .` whatever happens. The outcome (exit status, keys reported) is written
back into seeded/<id>/meta.json under "runs" and summarised in "caught_by"."""
import argparse
import json
import os
import re
import subprocess
import sys
import time

VERIF = os.path.dirname(os.path.dirname(os.path.abspath(__file__)))


def sh(cmd, **kw):
    return subprocess.run(cmd, stdout=subprocess.PIPE, stderr=subprocess.STDOUT, text=True, **kw)


def main():
    ap = argparse.ArgumentParser()
    ap.add_argument("dir")
    ap.add_argument("--tier", default="quick")
    ap.add_argument("--also", default="")
    ap.add_argument("--seed", default="1")
    a = ap.parse_args()
    d = os.path.abspath(a.dir)
    meta_p = os.path.join(d, "meta.json")
    meta = json.load(open(meta_p))
    props = [meta["property"]] + [p for p in a.also.split(",") if p]
    st = sh(["git", "-C", "/repo", "status", "--porcelain", "--untracked-files=no"]).stdout.strip()
    if st:
        print("refusing: /repo has uncommitted changes:\n" + st)
        return 2
    patch = os.path.join(d, "patch.ported.diff") if os.path.exists(os.path.join(d, "patch.ported.diff")) else os.path.join(d, "patch.diff")
    r = sh(["git", "-C", "/repo", "apply", patch])
    if r.returncode != 0:
        print("patch does not apply:", r.stdout)
        return 2
    runs = meta.setdefault("runs", [])
    try:
        for pid in props:
            t0 = time.time()
            env = dict(os.environ, VERIF_SEED=a.seed)
            r = sh([os.path.join(VERIF, "check"), pid, "--tier", a.tier], cwd=VERIF, env=env)
            keys = sorted(set(re.findall(r"^\s+key=(\S+)", r.stdout, flags=re.M)))
            known = sorted(set(re.findall(r"^KNOWN-FINDING: property=\S+ (\S+)", r.stdout, flags=re.M)))
            tail = r.stdout.strip().splitlines()[-1] if r.stdout.strip() else ""
            run = {"check": pid, "tier": a.tier, "seed": a.seed, "exit": r.returncode, "violation_keys": keys, "known_keys_seen": known, "last_line": tail[:300], "wall_s": round(time.time() - t0, 1)}
            runs.append(run)
            print(json.dumps(run))
    finally:
        sh(["git", "-C", "/repo", "checkout", "--", "."])
        left = sh(["git", "-C", "/repo", "status", "--porcelain", "--untracked-files=no"]).stdout.strip()
        if left:
            print("WARNING: /repo not clean after restore:\n" + left)
    caught = [f"{r['check']} ({r['tier']})" for r in runs if r["exit"] == 1]
    meta["caught_by"] = ", ".join(sorted(set(caught))) if caught else "NOT CAUGHT by: " + ", ".join(sorted({f"{r['check']} ({r['tier']})" for r in runs}))
    meta["keys"] = sorted({k for r in runs if r["exit"] == 1 for k in r["violation_keys"]})
    json.dump(meta, open(meta_p, "w"), indent=1)
    return 0


if __name__ == "__main__":
    sys.exit(main())
