"""Reader for the binary log written by shim/iorec.so, and an in-memory replay of it."""
import hashlib
import struct

K = {1: "open", 2: "write", 3: "trunc", 4: "fsync", 5: "rename", 6: "unlink", 7: "mark", 8: "unsupported",
     9: "close", 10: "link", 11: "flock", 12: "dirsync"}


def read_log(path):
    """Yield events as dicts: kind, ino (dev, ino), a, b, name, data."""
    with open(path, "rb") as f:
        d = f.read()
    pos = 0
    out = []
    while pos + 4 <= len(d):
        (tot,) = struct.unpack_from("<I", d, pos)
        rec = d[pos + 4:pos + 4 + tot]
        pos += 4 + tot
        if len(rec) < tot:
            break
        kind = rec[0]
        dev, ino, a, b, nlen = struct.unpack_from("<QQqqI", rec, 1)
        name = rec[37:37 + nlen].decode("utf-8", "replace")
        (dlen,) = struct.unpack_from("<I", rec, 37 + nlen)
        data = rec[41 + nlen:41 + nlen + dlen]
        out.append({"kind": K.get(kind, str(kind)), "ino": (dev, ino), "a": a, "b": b, "name": name, "data": data})
    return out


class FS:
    """Directory replay: inode -> bytes, name -> inode. Only what the recorder saw."""

    def __init__(self):
        self.inodes = {}
        self.names = {}

    def clone(self):
        c = FS()
        c.inodes = {k: bytearray(v) for k, v in self.inodes.items()}
        c.names = dict(self.names)
        return c

    def apply(self, ev):
        """Apply one event; returns True if it changed content or names."""
        k = ev["kind"]
        ino = ev["ino"]
        if k == "open":
            name = ev["name"]
            if ino not in self.inodes:
                # a file the run created (size at open time is 0) or one that existed before
                self.inodes[ino] = bytearray(max(ev["b"], 0))
            if not name.endswith(" (deleted)") and self.names.get(name) != ino:
                self.names[name] = ino
                return True
            return False
        if k == "write":
            buf = self.inodes.setdefault(ino, bytearray())
            off, data = ev["a"], ev["data"]
            if off > len(buf):
                buf.extend(b"\0" * (off - len(buf)))
            buf[off:off + len(data)] = data
            return True
        if k == "trunc":
            buf = self.inodes.setdefault(ino, bytearray())
            n = ev["a"]
            if ev["b"] == 1:  # fallocate: only grows
                if n > len(buf):
                    buf.extend(b"\0" * (n - len(buf)))
                    return True
                return False
            if n < len(buf):
                del buf[n:]
            elif n > len(buf):
                buf.extend(b"\0" * (n - len(buf)))
            else:
                return False
            return True
        if k == "rename":
            old, new = ev["name"].split("\n", 1)
            if old in self.names:
                self.names[new] = self.names.pop(old)
                return True
            return False
        if k == "unlink":
            return self.names.pop(ev["name"], None) is not None
        if k == "link":
            old, new = ev["name"].split("\n", 1)
            if old in self.names:
                self.names[new] = self.names[old]
                return True
            return False
        return False

    def content(self, path):
        ino = self.names.get(path)
        return None if ino is None else bytes(self.inodes.get(ino, b""))

    def listing(self, directory):
        pre = directory.rstrip("/") + "/"
        return sorted(n[len(pre):] for n in self.names if n.startswith(pre) and "/" not in n[len(pre):])


def digest(b):
    return hashlib.blake2b(b, digest_size=12).hexdigest()
