"""C17(b) — engine E6: two real writer processes stepped through chosen interleavings.

Each process (mvdrive c17worker) executes its script one step at a time when the scheduler tells it
to. The scheduler records call and return events at the client boundary with one monotonic clock.
A step that does not answer within `BLOCK_S` is *blocked* (Memvid::open waits for the lock): it stays
open in the history, the schedule goes on with the other process, and its answer is collected when
it arrives. The offline checker then looks at the history:

  * the intervals [open returned Ok, drop called] of the two processes' writable handles must not
    overlap (if they do, two writers were alive at once);
  * after both processes have exited, the file must contain every document whose put and following
    commit were acknowledged, whoever wrote it (a lost commit is the consequence the property names)."""
import itertools
import json
import os
import queue
import random
import shutil
import subprocess
import threading
import time

import common as C

BLOCK_S = 0.4
SCRIPTS = {
    "A": ["open", "put", "commit", "put", "commit", "drop"],
    "B": ["open", "put", "commit", "drop"],
}
SCRIPTS_VACUUM = {
    "A": ["open", "put", "commit", "vacuum", "put", "commit", "drop"],
    "B": ["open", "put", "commit", "drop"],
}


class Proc:
    def __init__(self, bindir, path, name, tmp):
        self.name = name
        self.p = subprocess.Popen([os.path.join(bindir, "mvdrive"), "c17worker", "--path", path, "--name", name], stdin=subprocess.PIPE, stdout=subprocess.PIPE,
                                  stderr=subprocess.DEVNULL, env=dict(C.ENV, TMPDIR=tmp), text=True, bufsize=1)
        self.q = queue.Queue()
        self.t = threading.Thread(target=self._reader, daemon=True)
        self.t.start()
        self.pending = None  # step sent, answer not yet seen

    def _reader(self):
        for line in self.p.stdout:
            try:
                self.q.put(json.loads(line))
            except Exception:  # noqa: BLE001
                pass
        self.q.put(None)

    def send(self, step):
        self.p.stdin.write(step + "\n")
        self.p.stdin.flush()
        self.pending = step

    def poll(self, timeout):
        try:
            r = self.q.get(timeout=timeout)
        except queue.Empty:
            return "blocked"
        if r is None:
            return "dead"
        self.pending = None
        return r

    def close(self):
        try:
            self.p.stdin.close()
        except Exception:  # noqa: BLE001
            pass
        try:
            self.p.wait(timeout=15)
        except subprocess.TimeoutExpired:
            self.p.kill()


def run_schedule(bindir, wd, order, scripts):
    """Execute one interleaving. `order` is a string over {A, B} saying whose next step runs.
    Returns (history, final_uris | None, note)."""
    shutil.rmtree(wd, ignore_errors=True)
    os.makedirs(os.path.join(wd, "mem"))
    os.makedirs(os.path.join(wd, "tmp"))
    path = os.path.join(wd, "mem", "mem.mv2")
    tmp = os.path.join(wd, "tmp")
    t0 = time.monotonic()
    hist = []

    def ev(kind, who, step, extra=None):
        e = {"t": round(time.monotonic() - t0, 4), "kind": kind, "who": who, "step": step}
        if extra:
            e.update(extra)
        hist.append(e)

    setup = Proc(bindir, path, "S", tmp)
    for step in ("create", "commit", "drop", "exit"):
        setup.send(step)
        r = setup.poll(30)
        if not isinstance(r, dict) or not r.get("ok"):
            setup.close()
            return hist, None, f"setup step {step} failed: {r}"
    setup.close()
    procs = {n: Proc(bindir, path, n, tmp) for n in ("A", "B")}
    pos = {"A": 0, "B": 0}
    todo = list(order)
    guard = time.monotonic() + 90
    while (todo or any(p.pending for p in procs.values())) and time.monotonic() < guard:
        # collect answers of blocked calls first
        for n, p in procs.items():
            if p.pending:
                r = p.poll(0.01)
                if isinstance(r, dict):
                    ev("return", n, r.get("step"), {"ok": r.get("ok"), "err": (r.get("err") or "")[:120], "uri": r.get("uri")})
        if not todo:
            time.sleep(0.05)
            continue
        n = todo[0]
        p = procs[n]
        if p.pending:
            # this process is still inside a blocked call: let the other one move if it can
            other = "B" if n == "A" else "A"
            if other in todo and not procs[other].pending:
                todo.remove(other)
                todo.insert(0, other)
                continue
            time.sleep(0.05)
            continue
        todo.pop(0)
        if pos[n] >= len(scripts[n]):
            continue
        step = scripts[n][pos[n]]
        pos[n] += 1
        ev("call", n, step)
        p.send(step)
        r = p.poll(BLOCK_S if step == "open" else 60)
        if r == "blocked":
            ev("blocked", n, step)
            continue
        if r == "dead":
            ev("died", n, step)
            break
        ev("return", n, r.get("step"), {"ok": r.get("ok"), "err": (r.get("err") or "")[:120], "uri": r.get("uri")})
        if step == "open" and not r.get("ok"):
            # an open that was refused: the rest of this process' script cannot run
            pos[n] = len(scripts[n])
    for n, p in procs.items():
        if not p.pending:
            p.send("exit")
            p.poll(10)
        p.close()
    # final state through a fresh process
    fin = Proc(bindir, path, "F", tmp)
    uris = None
    fin.send("open")
    r = fin.poll(40)
    if isinstance(r, dict) and r.get("ok"):
        fin.send("list")
        r2 = fin.poll(30)
        if isinstance(r2, dict) and r2.get("ok"):
            uris = r2.get("uris")
    else:
        ev("final-open-failed", "F", "open", {"err": str(r)[:160]})
    fin.send("exit")
    fin.poll(5)
    fin.close()
    shutil.rmtree(wd, ignore_errors=True)
    return hist, uris, ""


def check_history(hist, uris):
    """Offline checker. Returns list of (key, text)."""
    out = []
    alive = {}      # who -> time its open returned ok
    intervals = {"A": [], "B": []}
    acked = []      # uris whose put and a later commit of the same process returned ok
    pending_puts = {"A": [], "B": []}
    for e in hist:
        w = e["who"]
        if e["kind"] == "return" and e["step"] == "open" and e.get("ok"):
            alive[w] = e["t"]
            other = "B" if w == "A" else "A"
            if other in alive:
                out.append(("C17:two-writable-handles-alive", f"{w}'s Memvid::open returned Ok at t={e['t']} while {other}'s writable handle (opened at t={alive[other]}) had not been dropped"))
        elif e["kind"] == "call" and e["step"] == "drop" and w in alive:
            intervals[w].append((alive.pop(w), e["t"]))
        elif e["kind"] == "return" and e["step"] == "put" and e.get("ok"):
            pending_puts[w].append(e.get("uri"))
        elif e["kind"] == "return" and e["step"] == "commit" and e.get("ok"):
            acked += pending_puts[w]
            pending_puts[w] = []
    if uris is None:
        out.append(("C17:final-open-failed", "the file could not be opened after both writers exited"))
    else:
        missing = [u for u in acked if u not in uris]
        if missing:
            out.append(("C17:acknowledged-commit-lost", f"documents {missing} were put and committed (both acknowledged) but are not in the file after both writers exited; file holds {uris}"))
    seen, res = set(), []
    for k, t in out:
        if k not in seen:
            seen.add(k)
            res.append((k, t))
    return res


def all_orders(scripts):
    la, lb = len(scripts["A"]), len(scripts["B"])
    out = []
    for pos in itertools.combinations(range(la + lb), lb):
        s = ["A"] * (la + lb)
        for i in pos:
            s[i] = "B"
        out.append("".join(s))
    return out


def c17_schedules(pid, tier, seed, scratch, bindir):
    rng = random.Random(seed)
    rep = {"monitor": "two-process-schedules", "seed": seed, "evaluations": 0, "distinct_nontrivial": 0, "counters": {}, "samples": [],
           "rule": "two real writer processes (A: open put commit [vacuum] put commit drop; B: open put commit drop) on one file, stepped by an external scheduler through "
                   "interleavings of their steps (all of them in thorough, a seeded sample in quick); call/return events recorded at the client boundary with one monotonic clock, "
                   "a Memvid::open that does not return within 0.4 s is recorded as blocked and stays open; offline checker: writable-handle lifetimes never overlap, and every "
                   "document whose put and commit were acknowledged is in the file after both exit; a case is one schedule; distinct = distinct schedules executed",
           "violations": [], "inconclusive": [], "required_counters": ["schedules_run", "opens_blocked_by_live_writer", "opens_after_first_commit_of_other"], "assumptions": []}

    def count(k, n=1):
        rep["counters"][k] = rep["counters"].get(k, 0) + n
    plans = []
    for scripts, tag in ((SCRIPTS, "plain"), (SCRIPTS_VACUUM, "vacuum")):
        orders = all_orders(scripts)
        if tier == "quick":
            # always include the schedules where B opens right after A's first commit / vacuum
            must = [o for o in orders if o.startswith("AAAB")][:2] + [o for o in orders if o.startswith("AAAAB")][:2]
            orders = must + rng.sample(orders, 8 if tag == "plain" else 4)
        elif tag == "vacuum":
            orders = rng.sample(orders, 60)
        plans += [(scripts, tag, o) for o in orders]
    from concurrent.futures import ThreadPoolExecutor

    def one(i_plan):
        i, (scripts, tag, order) = i_plan
        wd = os.path.join(scratch, f"s{i}")
        try:
            hist, uris, note = run_schedule(bindir, wd, order, scripts)
        except Exception as e:  # noqa: BLE001
            return order, tag, [], None, f"scheduler error: {e}"
        return order, tag, hist, uris, note
    with ThreadPoolExecutor(max_workers=8) as ex:
        results = list(ex.map(one, list(enumerate(plans))))
    for order, tag, hist, uris, note in results:
        if note:
            rep["inconclusive"].append({"case": f"schedule {tag}:{order}", "reason": note[:200]})
            continue
        rep["evaluations"] += 1
        rep["distinct_nontrivial"] += 1
        count("schedules_run")
        count(f"schedules[{tag}]")
        count("events_recorded", len(hist))
        blocked = sum(1 for e in hist if e["kind"] == "blocked")
        count("opens_blocked_by_live_writer", blocked)
        refused = sum(1 for e in hist if e["kind"] == "return" and e["step"] == "open" and not e.get("ok"))
        count("opens_refused_with_lock_error", refused)
        # did an open get requested after the other process had committed at least once and was still alive?
        committed = {"A": False, "B": False}
        alive = set()
        for e in hist:
            if e["kind"] == "return" and e["step"] == "commit" and e.get("ok"):
                committed[e["who"]] = True
            if e["kind"] == "return" and e["step"] == "open" and e.get("ok"):
                alive.add(e["who"])
            if e["kind"] == "call" and e["step"] == "drop":
                alive.discard(e["who"])
            if e["kind"] == "call" and e["step"] == "open":
                other = "B" if e["who"] == "A" else "A"
                if other in alive and committed[other]:
                    count("opens_after_first_commit_of_other")
        for key, text in check_history(hist, uris):
            count(f"violations[{key}]")
            if sum(1 for v in rep["violations"] if v["key"] == key) < 2:
                rep["violations"].append({"key": key, "what": f"schedule {tag}:{order}: {text}", "detail": {"mode": "c17sched", "order": order, "scripts": tag, "history": hist, "final_uris": uris}})
        if len(rep["samples"]) < 2:
            rep["samples"].append({"schedule": order, "scripts": tag, "history": [f"{e['t']} {e['who']} {e['kind']} {e['step']}" + ("" if e.get("ok") is None else f" ok={e['ok']}") for e in hist][:30], "final_uris": uris})
    return [rep], []


def replay(detail, scratch):
    bindir = C.build()
    scripts = SCRIPTS_VACUUM if detail.get("scripts") == "vacuum" else SCRIPTS
    keys = set()
    for i in range(3):
        hist, uris, note = run_schedule(bindir, os.path.join(scratch, f"r{i}"), detail["order"], scripts)
        keys |= {k for k, _ in check_history(hist, uris)}
    return sorted(keys)
