"""C23 — determinism: the same history executed twice in separate processes on fresh directories.

Three executions of the same seed, same file name, fresh directories, separate processes:
A and B with the wall clock frozen at the same second (LD_PRELOAD shim), C with the wall clock frozen
1000 s later. A vs B shows non-determinism that has nothing to do with the clock (random names,
hash order, thread timing); A vs C adds every hidden use of "now". Compared: (1) file bytes, every
differing byte attributed to a region of the decoded layout and, for the TOC, to the generalised
field path that differs; (2) the logical digest through the API (frames, contents, timeline,
searches, vector hits, cards without their wall-clock creation stamp, stats)."""
import json
import os
import shutil
import subprocess
from concurrent.futures import ThreadPoolExecutor

import common as C
import crashsim as X


def _report(monitor, seed, rule):
    return {"monitor": monitor, "seed": seed, "evaluations": 0, "distinct_nontrivial": 0, "counters": {}, "samples": [], "rule": rule,
            "violations": [], "inconclusive": [], "required_counters": [], "assumptions": []}


def _count(rep, k, n=1):
    rep["counters"][k] = rep["counters"].get(k, 0) + n


def _violation(rep, key, what, detail):
    _count(rep, f"violations[{key}]")
    if sum(1 for v in rep["violations"] if v["key"] == key) < 2:
        rep["violations"].append({"key": key, "what": what, "detail": detail})


T0 = 1_750_000_000


def run_once(bindir, seed, ops, wd, clock, profile, vacuum=False):
    d = os.path.join(wd, "mem")
    tmp = os.path.join(wd, "tmp")
    for p in (d, tmp):
        shutil.rmtree(p, ignore_errors=True)
        os.makedirs(p)
    env = dict(C.ENV, TMPDIR=tmp)
    env.update(LD_PRELOAD=X.ensure_shim(), IOREC_TIME_FIXED=str(clock))
    digest = os.path.join(wd, "digest.json")
    states = os.path.join(wd, "states.json")
    argv = [os.path.join(bindir, "mvdrive"), "runhist", "--seed", str(seed), "--ops", str(ops), "--dir", d, "--name", "mem.mv2", "--states", states,
            "--digest", digest, "--profile", profile, "--final-commit", "--out", os.path.join(wd, "rep.json")] + (["--final-vacuum"] if vacuum else [])
    try:
        p = subprocess.run(argv, env=env, stdout=subprocess.PIPE, stderr=subprocess.PIPE, timeout=900)
    except subprocess.TimeoutExpired:
        raise C.Inconclusive("history timed out")
    if p.returncode != 0 or not os.path.exists(digest):
        raise C.Inconclusive(f"history failed ({p.returncode}): {p.stderr.decode('utf-8', 'replace')[-300:]}")
    path = os.path.join(d, "mem.mv2")
    with open(path, "rb") as f:
        data = f.read()
    with open(digest) as f:
        dg = json.load(f)
    with open(states) as f:
        st = json.load(f)
    return path, data, dg, st


def layout(bindir, path):
    r = subprocess.run([os.path.join(bindir, "mvprobe"), "raw", path], stdout=subprocess.PIPE, stderr=subprocess.PIPE, env=C.ENV, timeout=120)
    return json.loads(r.stdout.decode().strip().splitlines()[-1])


def regions_of(lay, n):
    """Ordered list of (name, start, end) for everything the decoded layout names, plus the gaps between them ('unmapped')."""
    out = [("header", 0, 4096)]
    h = lay.get("header") or {}
    if h:
        out.append(("wal", h["wal_offset"], h["wal_offset"] + h["wal_size"]))
    for f in lay.get("frames", []):
        if f["len"]:
            out.append(("payload", f["off"], f["off"] + f["len"]))
    reg = lay.get("regions") or {}
    for name in ("time_index", "lex", "vec", "memories", "mesh", "sketch"):
        if reg.get(name):
            o, l = reg[name]
            out.append((name, o, o + l))
    for o, l in reg.get("tantivy_segments") or reg.get("lex_segments") or []:
        out.append(("tantivy_segments", o, o + l))
    ft = lay.get("footer") or {}
    if ft:
        out.append(("toc", ft["toc_offset"], ft["footer_offset"]))
        out.append(("footer", ft["footer_offset"], n))
    out.sort(key=lambda r: (r[1], r[2]))
    # drop duplicates (payload-reusing frames share a range) and add the gaps
    seen, res, pos = set(), [], 0
    for name, s, e in out:
        if (s, e) in seen:
            continue
        seen.add((s, e))
        if s > pos:
            res.append(("unmapped", pos, s))
        res.append((name, s, e))
        pos = max(pos, e)
    if pos < n:
        res.append(("unmapped", pos, n))
    return res


def aligned_diff(a, la, b, lb):
    """Compare two files region by region, each through its own decoded layout (so a length change in one
    region does not smear over everything behind it). Returns (keys -> text, per-region differing bytes, length changes)."""
    ra, rb = regions_of(la, len(a)), regions_of(lb, len(b))
    keys, per, length_changes = {}, {}, []
    names_a, names_b = [r[0] for r in ra], [r[0] for r in rb]
    if names_a != names_b:
        keys["layout-differs"] = f"the two files do not have the same sequence of regions ({len(ra)} vs {len(rb)} regions)"
        return keys, per, length_changes
    for (name, s1, e1), (_, s2, e2) in zip(ra, rb):
        x, y = a[s1:e1], b[s2:e2]
        if len(x) != len(y):
            length_changes.append(name)
            keys[f"length-differs:{name}"] = f"a '{name}' region has {len(x)} bytes in one execution and {len(y)} in the other"
            continue
        if x != y:
            nd = sum(1 for i in range(len(x)) if x[i] != y[i])
            per[name] = per.get(name, 0) + nd
    return keys, per, length_changes


def logical_diff(x, y):
    keys = sorted(set(x) | set(y)) if isinstance(x, dict) and isinstance(y, dict) else []
    return [k for k in keys if x.get(k) != y.get(k)]


def _strip_clock(dg):
    """The digest without values that are wall-clock stamps by design (a card's creation time is not an input)."""
    dg = dict(dg)
    dg["cards"] = sorted("|".join(c.split("|")[:-1]) for c in dg.get("cards") or [])
    return dg


OFFSET_FIELDS = ("bytes_offset", "payload_offset", "offset")


def compare(bindir, pa, a, da, pb, b, db):
    """Differences between two executions: logical keys, region lengths, per-region byte counts, TOC field paths."""
    res = {"len_a": len(a), "len_b": len(b), "logical": logical_diff(_strip_clock(da), _strip_clock(db)), "keys": {}}
    for k in res["logical"]:
        res["keys"][f"logical-state-differs:{k}"] = f"the logical digests differ in {k}"
    if a == b:
        res["diff_bytes"] = 0
        return res
    toc = {}
    r = subprocess.run([os.path.join(bindir, "mvprobe"), "tocdiff", pa, pb], stdout=subprocess.PIPE, stderr=subprocess.PIPE, env=C.ENV, timeout=120)
    try:
        toc = json.loads(r.stdout.decode().strip().splitlines()[-1])
    except Exception:  # noqa: BLE001
        toc = {"error": "tocdiff failed"}
    fields = toc.get("differing_fields", [])
    keys, per, length_changes = aligned_diff(a, layout(bindir, pa), b, layout(bindir, pb))
    res["keys"].update(keys)
    res["per_region"], res["diff_bytes"], res["length_changes"] = per, sum(per.values()), length_changes
    offset_fields = [f for f in fields if f["path"].split(".")[-1] in OFFSET_FIELDS]
    length_fields = [f for f in fields if f["path"].split(".")[-1] in ("bytes_length", "payload_length")]
    res["toc_fields"] = [f["path"] for f in fields]
    res["offset_fields_shifted"] = len(offset_fields)
    for f in fields:
        if f in offset_fields:
            continue
        res["keys"][f"bytes-differ:toc:{f['path']}"] = f"TOC field {f['path']} differs in {f['count']} place(s), e.g. {f['example']}"
    if offset_fields and not length_changes and not length_fields:
        res["keys"]["toc-offsets-differ:no-length-change"] = f"offset fields differ ({offset_fields[0]['path']}: {offset_fields[0]['example']}) although no region changed its length"
    if len(a) != len(b) and not length_changes:
        res["keys"]["file-length-differs:no-region-length-change"] = f"{len(a)} vs {len(b)} bytes"
    for region, nbytes in per.items():
        if region == "toc":
            if not fields:
                res["keys"]["bytes-differ:toc:undecoded"] = f"{nbytes} TOC bytes differ, field diff unavailable"
        elif region in ("header", "footer"):
            # the header carries the TOC checksum / offsets and the footer the TOC hash: they follow from a TOC difference
            if "toc" not in per and "toc" not in length_changes:
                res["keys"][f"bytes-differ:{region}:toc-identical"] = f"{nbytes} {region} bytes differ although the TOC bytes are identical"
        else:
            res["keys"][f"bytes-differ:{region}"] = f"{nbytes} byte(s) differ inside a '{region}' region (compared region by region through each file's own layout)"
    return res


def c23(pid, tier, seed, scratch):
    bindir = C.build()
    X.ensure_shim()
    n_hist, ops = (10, 14) if tier == "quick" else (80, 30)
    rep = _report("twin-executions", seed,
                  "each history (create, puts of text / chunked text / binary / embedded triplet-bearing text with explicit timestamps, updates, deletes, commits, tickets, vacuum, reopen, "
                  "final commit) is executed three times in separate processes on fresh directories with the same file name: A and B with the wall clock frozen at the same second, C frozen "
                  "1000 s later; file bytes compared and every differing byte attributed to a decoded region (TOC differences to the field path) and to its cause (same-clock: differs "
                  "between A and B; clock: differs only when the clock differs); logical digests compared; a case is one execution pair; distinct = distinct histories compared")
    rep["required_counters"] = ["pairs_compared", "bytes_compared", "logical_digests_equal"]
    profiles = ["corpus", "crash"]

    def one(h):
        hseed = seed * 1000 + h
        profile = profiles[h % 2]
        dirs = [os.path.join(scratch, f"{t}{h}") for t in "abc"]
        for d in dirs:
            os.makedirs(d, exist_ok=True)
        try:
            vac = h % 3 == 2  # every third history ends with a vacuum (compaction rewrites the payload region)
            pa, a, da, sa = run_once(bindir, hseed, ops, dirs[0], T0, profile, vac)
            pb, b, db, sb = run_once(bindir, hseed, ops, dirs[1], T0, profile, vac)
            pc, c, dc, sc = run_once(bindir, hseed, ops, dirs[2], T0 + 1000, profile, vac)
            if sa["history"] != sb["history"] or sa["history"] != sc["history"]:
                return {"inconclusive": {"case": f"history {hseed}", "reason": "the executions did not perform the same calls (an operation's outcome differed)"}}
            return {"hseed": hseed, "profile": profile, "vacuum": vac, "ops": [o.get("op") for o in sa["history"]], "len": len(a),
                    "same": compare(bindir, pa, a, da, pb, b, db), "shifted": compare(bindir, pa, a, da, pc, c, dc)}
        except C.Inconclusive as e:
            return {"inconclusive": {"case": f"history {hseed}", "reason": str(e)[:300]}}
        finally:
            for d in dirs:
                shutil.rmtree(d, ignore_errors=True)

    with ThreadPoolExecutor(max_workers=max(1, C.CORES // 3)) as ex:
        results = list(ex.map(one, range(n_hist)))
    for res in results:
        if "inconclusive" in res:
            rep["inconclusive"].append(res["inconclusive"])
            continue
        rep["distinct_nontrivial"] += 1
        detail = {"mode": "c23", "seed": res["hseed"], "ops": ops, "profile": res["profile"], "vacuum": res.get("vacuum", False), "operations": res["ops"]}
        if res.get("vacuum"):
            _count(rep, "histories_ending_with_vacuum")
        for which in ("same", "shifted"):
            cmpres = res[which]
            rep["evaluations"] += 1
            _count(rep, "pairs_compared")
            _count(rep, f"pairs_compared[{which}-clock]")
            _count(rep, "bytes_compared", min(cmpres["len_a"], cmpres["len_b"]))
            if not cmpres["logical"]:
                _count(rep, "logical_digests_equal")
            if cmpres.get("diff_bytes") == 0:
                _count(rep, f"byte_identical_pairs[{which}-clock]")
            else:
                _count(rep, f"pairs_with_byte_differences[{which}-clock]")
                for region, nb in (cmpres.get("per_region") or {}).items():
                    _count(rep, f"differing_bytes[{which}-clock][{region}]", nb)
        # cause attribution: a difference already present with equal clocks is not a clock dependence
        for k, what in sorted(res["same"]["keys"].items()):
            _violation(rep, f"C23:{k}:same-clock", f"history seed {res['hseed']} ({res['profile']}), two executions with identical frozen clocks: {what}", detail)
        for k, what in sorted(res["shifted"]["keys"].items()):
            if k not in res["same"]["keys"]:
                _violation(rep, f"C23:{k}:clock-dependent", f"history seed {res['hseed']} ({res['profile']}), executions whose wall clocks differ by 1000 s (equal-clock executions agree here): {what}", detail)
        if len(rep["samples"]) < 3:
            rep["samples"].append({"history_seed": res["hseed"], "operations": res["ops"], "file_bytes": res["len"],
                                   "same_clock": {"differing_bytes": res["same"].get("diff_bytes"), "per_region": res["same"].get("per_region"), "toc_fields": (res["same"].get("toc_fields") or [])[:10]},
                                   "shifted_clock": {"differing_bytes": res["shifted"].get("diff_bytes"), "per_region": res["shifted"].get("per_region"), "toc_fields": (res["shifted"].get("toc_fields") or [])[:10]}})
    return [rep], [], {"assumptions": ["time()/gettimeofday()/clock_gettime(CLOCK_REALTIME) are frozen through LD_PRELOAD; monotonic clocks and thread scheduling inside Tantivy are not controlled",
                                       "header and footer differences are counted as derived when the TOC differs (they hold its checksum / hash)",
                                       "a card's creation stamp is wall-clock by design and is left out of the logical digest (it still counts in the byte comparison)",
                                       "default features + encryption build; Tantivy's scratch directory is outside the memory's directory"]}


def replay(detail, scratch):
    bindir = C.build()
    X.ensure_shim()
    dirs = [os.path.join(scratch, t) for t in "abc"]
    for d in dirs:
        os.makedirs(d, exist_ok=True)
    prof = detail.get("profile", "corpus")
    vac = detail.get("vacuum", False)
    pa, a, da, _ = run_once(bindir, detail["seed"], detail["ops"], dirs[0], T0, prof, vac)
    pb, b, db, _ = run_once(bindir, detail["seed"], detail["ops"], dirs[1], T0, prof, vac)
    pc, c, dc, _ = run_once(bindir, detail["seed"], detail["ops"], dirs[2], T0 + 1000, prof, vac)
    same = compare(bindir, pa, a, da, pb, b, db)["keys"]
    shifted = compare(bindir, pa, a, da, pc, c, dc)["keys"]
    return sorted([f"C23:{k}:same-clock" for k in same] + [f"C23:{k}:clock-dependent" for k in shifted if k not in same])
