//! Engine E3: apply file mutants in-process and observe what the API does with them.
//!
//! `mvprobe fault --mode c20|c22|c21 --base FILE --plan PLAN.jsonl --results OUT.jsonl --scratch DIR`
//!
//! One JSON line of PLAN = one mutant of BASE (flip / zero / trunc / set / splice / random / file).
//! Before every API call on a mutant a `BEGIN` line is appended to OUT (and flushed), so that when
//! the process dies (abort, stack overflow, kill by the watchdog) the supervisor knows which mutant
//! and which call were in flight. Panics are caught per call and reported with their source location.

use std::io::Write;
use std::panic::{AssertUnwindSafe, catch_unwind};
use std::path::{Path, PathBuf};
use std::sync::Mutex;

use memvid_core::Memvid;
use memvid_core::types::{DoctorOptions, DoctorStatus, VerificationStatus};
use serde_json::{Value, json};

use crate::probe::observe;
use crate::{Args, Rng, hex_digest};

static LAST_PANIC: Mutex<String> = Mutex::new(String::new());

fn install_panic_hook() {
    std::panic::set_hook(Box::new(|info| {
        let loc = info.location().map(|l| format!("{}:{}", l.file(), l.line())).unwrap_or_else(|| "unknown".into());
        let msg = info.payload().downcast_ref::<String>().cloned().or_else(|| info.payload().downcast_ref::<&str>().map(|s| s.to_string())).unwrap_or_default();
        if let Ok(mut l) = LAST_PANIC.lock() {
            *l = format!("{loc}|{}", msg.chars().take(160).collect::<String>());
        }
    }));
}

fn take_panic() -> (String, String) {
    let s = LAST_PANIC.lock().map(|mut l| std::mem::take(&mut *l)).unwrap_or_default();
    let mut it = s.splitn(2, '|');
    let site = it.next().unwrap_or("").to_string();
    // strip the registry / repo prefix so the key is stable
    let site = site.rsplit_once("/repo/").map(|(_, s)| s.to_string()).unwrap_or_else(|| {
        site.rsplit_once("/registry/src/").map(|(_, s)| s.split_once('/').map(|(_, r)| r.to_string()).unwrap_or_default()).unwrap_or(site.clone())
    });
    (site, it.next().unwrap_or("").to_string())
}

pub fn apply_mutant(base: &[u8], m: &Value) -> Option<Vec<u8>> {
    let kind = m["kind"].as_str()?;
    let u = |k: &str| m[k].as_u64().unwrap_or(0) as usize;
    let mut out = base.to_vec();
    match kind {
        "none" => {}
        "flip" => {
            let o = u("off");
            if o >= out.len() { return None; }
            out[o] ^= (m["xor"].as_u64().unwrap_or(0xff) as u8).max(1);
        }
        "zero" | "fill" => {
            let (o, l) = (u("off"), u("len"));
            let v = m["value"].as_u64().unwrap_or(0) as u8;
            if o >= out.len() { return None; }
            let e = (o + l).min(out.len());
            out[o..e].fill(v);
        }
        "trunc" => {
            let l = u("len");
            if l >= out.len() { out.resize(l, 0); } else { out.truncate(l); }
        }
        "set" => {
            let o = u("off");
            let bytes = hex::decode(m["bytes"].as_str()?).ok()?;
            if o + bytes.len() > out.len() { return None; }
            out[o..o + bytes.len()].copy_from_slice(&bytes);
        }
        "splice" => {
            let other = std::fs::read(m["other"].as_str()?).ok()?;
            let at = u("at").min(out.len()).min(other.len());
            out.truncate(at);
            out.extend_from_slice(&other[at..]);
        }
        "random" => {
            let mut r = Rng::new(m["seed"].as_u64().unwrap_or(1));
            out = r.bytes(u("len"));
            if m["magic"].as_bool().unwrap_or(false) && out.len() >= 4096 {
                out[..4096].copy_from_slice(&base[..4096]);
            }
        }
        "file" => {
            out = std::fs::read(m["path"].as_str()?).ok()?;
        }
        _ => return None,
    }
    Some(out)
}

struct Out {
    f: std::fs::File,
}

impl Out {
    fn line(&mut self, v: &Value) {
        let _ = writeln!(self.f, "{}", serde_json::to_string(v).unwrap_or_default());
        let _ = self.f.flush();
    }
}

fn call<T>(out: &mut Out, id: u64, api: &str, f: impl FnOnce() -> T) -> Result<(T, u64), Value> {
    out.line(&json!({"BEGIN": id, "api": api}));
    let t0 = std::time::Instant::now();
    let r = catch_unwind(AssertUnwindSafe(f));
    let ms = t0.elapsed().as_millis() as u64;
    match r {
        Ok(v) => Ok((v, ms)),
        Err(_) => {
            let (site, msg) = take_panic();
            Err(json!({"api": api, "panic_site": site, "message": msg, "ms": ms}))
        }
    }
}

fn queries() -> Vec<String> {
    let mut q: Vec<String> = crate::drive::hist::WORDS.iter().take(10).map(|s| s.to_string()).collect();
    q.extend(["works", "globex", "title"].iter().map(|s| s.to_string()));
    q
}

/// Components of an observation that differ from the baseline. A component that is an error in `got`
/// is not a difference (failing is allowed; serving something else is not).
pub fn diff_obs(base: &Value, got: &Value) -> Vec<String> {
    let mut out = Vec::new();
    let is_err = |v: &Value| v.get("err").is_some();
    if base["frame_count"] != got["frame_count"] {
        out.push("frame-count".to_string());
    }
    let (bf, gf) = (base["frames"].as_array().cloned().unwrap_or_default(), got["frames"].as_array().cloned().unwrap_or_default());
    for (b, g) in bf.iter().zip(gf.iter()) {
        if is_err(g) { continue; }
        for k in ["uri", "status", "role", "parent", "ts", "supersedes", "superseded_by", "title", "track", "tags", "labels"] {
            if b[k] != g[k] && !out.contains(&format!("frame-meta:{k}")) { out.push(format!("frame-meta:{k}")); }
        }
        for k in ["payload", "blob", "text", "embedding"] {
            if b.get(k).is_none() && g.get(k).is_none() { continue; }
            let (bv, gv) = (&b[k], &g[k]);
            if is_err(gv) { continue; }
            if bv != gv && !out.iter().any(|o| o.starts_with(&format!("{k}:"))) {
                let enc = b["enc"].as_str().unwrap_or("?");
                out.push(format!("{k}:{enc}"));
            }
        }
    }
    for k in ["timeline", "stats", "cards", "ticket", "vector", "card_list"] {
        if base.get(k).is_none() || got.get(k).is_none() { continue; }
        if is_err(&got[k]) { continue; }
        if base[k] != got[k] { out.push(k.to_string()); }
    }
    if let (Some(bs), Some(gs)) = (base["searches"].as_array(), got["searches"].as_array()) {
        for (b, g) in bs.iter().zip(gs) {
            if is_err(g) { continue; }
            if b != g { out.push("search".to_string()); break; }
        }
    }
    out
}

fn write_scratch(scratch: &Path, name: &str, bytes: &[u8]) -> PathBuf {
    let p = scratch.join(name);
    let _ = std::fs::write(&p, bytes);
    p
}

fn status_str(s: &VerificationStatus) -> &'static str {
    match s { VerificationStatus::Passed => "Passed", VerificationStatus::Failed => "Failed", VerificationStatus::Skipped => "Skipped" }
}

fn dstatus(s: &DoctorStatus) -> &'static str {
    match s { DoctorStatus::Clean => "Clean", DoctorStatus::Healed => "Healed", DoctorStatus::Partial => "Partial", DoctorStatus::Failed => "Failed", DoctorStatus::PlanOnly => "PlanOnly" }
}

/// C20: open rw (on a scratch copy), open ro, verify(deep); compare what is served with the baseline.
fn c20_one(out: &mut Out, id: u64, bytes: &[u8], scratch: &Path, baseline: &Value, qs: &[String]) -> Value {
    let mut res = json!({"id": id});
    let mut panics = Vec::new();
    for how in ["ro", "rw"] {
        let p = write_scratch(scratch, "m.mv2", bytes);
        let r = call(out, id, &format!("open-{how}+reads"), || {
            let opened = if how == "ro" { Memvid::open_read_only(&p) } else { Memvid::open(&p) };
            match opened {
                Ok(mut mem) => { let o = observe(&mut mem, qs, true); (true, diff_obs(baseline, &o), String::new()) }
                Err(e) => (false, Vec::new(), crate::drive::hist::err_kind(&e)),
            }
        });
        match r {
            Ok(((opened, diff, err), ms)) => { res[how] = json!({"opened": opened, "diff": diff, "err": err, "ms": ms}); }
            Err(p) => { res[how] = json!({"opened": false, "panic": true}); panics.push(p); }
        }
    }
    let p = write_scratch(scratch, "m.mv2", bytes);
    match call(out, id, "verify-deep", || Memvid::verify(&p, true)) {
        Ok((Ok(rep), ms)) => { res["verify"] = json!({"status": status_str(&rep.overall_status), "ms": ms}); }
        Ok((Err(e), ms)) => { res["verify"] = json!({"status": "err", "err": crate::drive::hist::err_kind(&e), "ms": ms}); }
        Err(p) => { res["verify"] = json!({"status": "panic"}); panics.push(p); }
    }
    if !panics.is_empty() { res["panics"] = json!(panics); }
    res
}

/// C22: every entry point, result or error, never a panic; time per call is reported.
fn c22_one(out: &mut Out, id: u64, bytes: &[u8], scratch: &Path, qs: &[String]) -> Value {
    let mut res = json!({"id": id, "len": bytes.len()});
    let mut panics = Vec::new();
    let mut calls = serde_json::Map::new();
    let mut record = |name: &str, r: Result<(String, u64), Value>| match r {
        Ok((s, ms)) => { calls.insert(name.to_string(), json!({"r": s, "ms": ms})); }
        Err(p) => { calls.insert(name.to_string(), json!({"r": "panic"})); panics.push(p); }
    };
    for how in ["rw", "ro"] {
        let p = write_scratch(scratch, "m.mv2", bytes);
        let r = call(out, id, &format!("open-{how}+reads"), || {
            let opened = if how == "ro" { Memvid::open_read_only(&p) } else { Memvid::open(&p) };
            match opened {
                Ok(mut mem) => { let o = observe(&mut mem, qs, true); format!("ok:{}", o["frame_count"]) }
                Err(e) => format!("err:{}", crate::drive::hist::err_kind(&e)),
            }
        });
        record(&format!("open-{how}+reads"), r);
    }
    let p = write_scratch(scratch, "m.mv2", bytes);
    record("verify-deep", call(out, id, "verify-deep", || match Memvid::verify(&p, true) { Ok(r) => status_str(&r.overall_status).to_string(), Err(e) => format!("err:{}", crate::drive::hist::err_kind(&e)) }));
    record("verify-shallow", call(out, id, "verify-shallow", || match Memvid::verify(&p, false) { Ok(r) => status_str(&r.overall_status).to_string(), Err(e) => format!("err:{}", crate::drive::hist::err_kind(&e)) }));
    let p = write_scratch(scratch, "m.mv2", bytes);
    let mut opts = DoctorOptions::default();
    opts.quiet = true;
    record("doctor_plan", call(out, id, "doctor_plan", || match Memvid::doctor_plan(&p, opts.clone()) { Ok(pl) => format!("ok:{}", pl.phases.len()), Err(e) => format!("err:{}", crate::drive::hist::err_kind(&e)) }));
    let variant = id % 3;
    let mut o2 = DoctorOptions::default();
    o2.quiet = true;
    if variant == 1 { o2.rebuild_time_index = true; o2.rebuild_lex_index = true; o2.rebuild_vec_index = true; }
    if variant == 2 { o2.vacuum = true; }
    record("doctor", call(out, id, "doctor", || match Memvid::doctor(&p, o2) { Ok(r) => dstatus(&r.status).to_string(), Err(e) => format!("err:{}", crate::drive::hist::err_kind(&e)) }));
    // and the file doctor left behind
    record("open-after-doctor", call(out, id, "open-after-doctor", || match Memvid::open(&p) {
        Ok(mut mem) => { let o = observe(&mut mem, qs, true); format!("ok:{}", o["frame_count"]) }
        Err(e) => format!("err:{}", crate::drive::hist::err_kind(&e)),
    }));
    res["calls"] = Value::Object(calls);
    if !panics.is_empty() { res["panics"] = json!(panics); }
    res
}

fn doctor_opts(mask: u64) -> DoctorOptions {
    let mut o = DoctorOptions::default();
    o.quiet = true;
    o.rebuild_time_index = mask & 1 != 0;
    o.rebuild_lex_index = mask & 2 != 0;
    o.rebuild_vec_index = mask & 4 != 0;
    o.vacuum = mask & 8 != 0;
    o.dry_run = mask & 16 != 0;
    o
}

/// Document-level view (uri, status, content digest) used to compare with the states a history allows.
pub fn doc_view(mem: &mut Memvid) -> Value {
    let n = mem.frame_count() as u64;
    let mut docs = Vec::new();
    for id in 0..n {
        let Ok(f) = mem.frame_by_id(id) else { docs.push(json!({"id": id, "err": true})); continue };
        if f.role == memvid_core::types::FrameRole::DocumentChunk { continue; }
        let content = if f.status == memvid_core::types::FrameStatus::Active {
            match mem.frame_canonical_payload(id) { Ok(b) => json!({"len": b.len(), "b3": hex_digest(&b)}), Err(e) => json!({"err": crate::drive::hist::err_kind(&e)}) }
        } else { Value::Null };
        docs.push(json!({"uri": f.uri.clone().unwrap_or_default(), "status": format!("{:?}", f.status), "content": content}));
    }
    json!(docs)
}

/// C21: doctor with the option mask of the mutant, then open + observe, verify(deep), second doctor.
fn c21_one(out: &mut Out, id: u64, bytes: &[u8], scratch: &Path, m: &Value, qs: &[String]) -> Value {
    let mask = m["doctor_mask"].as_u64().unwrap_or(0);
    let mut res = json!({"id": id, "mask": mask});
    let mut panics = Vec::new();
    let p = write_scratch(scratch, "m.mv2", bytes);
    let before = hex_digest(bytes);
    match call(out, id, "doctor", || Memvid::doctor(&p, doctor_opts(mask))) {
        Ok((Ok(r), ms)) => { res["doctor"] = json!({"status": dstatus(&r.status), "ms": ms, "findings": r.findings.iter().take(6).map(|f| format!("{:?}", f.code)).collect::<Vec<_>>()}); }
        Ok((Err(e), ms)) => { res["doctor"] = json!({"status": "err", "err": crate::drive::hist::err_kind(&e), "error": e.to_string().chars().take(160).collect::<String>(), "ms": ms}); }
        Err(pn) => { res["doctor"] = json!({"status": "panic"}); panics.push(pn); }
    }
    let after = std::fs::read(&p).unwrap_or_default();
    res["bytes_changed"] = json!(hex_digest(&after) != before);
    if mask & 16 == 0 {
        match call(out, id, "open-after-doctor", || match Memvid::open(&p) {
            Ok(mut mem) => { let o = observe(&mut mem, qs, true); let d = doc_view(&mut mem); (true, o, d, String::new()) }
            Err(e) => (false, Value::Null, Value::Null, format!("{}: {}", crate::drive::hist::err_kind(&e), e.to_string().chars().take(120).collect::<String>())),
        }) {
            Ok(((ok, o, d, err), _)) => { res["open"] = json!({"ok": ok, "err": err}); res["obs"] = o; res["docs"] = d; }
            Err(pn) => { res["open"] = json!({"ok": false, "panic": true}); panics.push(pn); }
        }
        match call(out, id, "verify-deep", || Memvid::verify(&p, true)) {
            Ok((Ok(r), _)) => { res["verify"] = json!(status_str(&r.overall_status)); res["verify_failed_checks"] = json!(r.checks.iter().filter(|c| c.status == VerificationStatus::Failed).map(|c| c.name.clone()).collect::<Vec<_>>()); }
            Ok((Err(e), _)) => { res["verify"] = json!(format!("err:{}", crate::drive::hist::err_kind(&e))); }
            Err(pn) => { res["verify"] = json!("panic"); panics.push(pn); }
        }
        // idempotence: nothing may be left to heal. The second run uses the default options - a run that is
        // told to rebuild an index or to vacuum does so again and truthfully reports that it did something.
        match call(out, id, "doctor-again", || Memvid::doctor(&p, doctor_opts(0))) {
            Ok((Ok(r), _)) => { res["doctor2"] = json!(dstatus(&r.status)); res["doctor2_findings"] = json!(r.findings.iter().take(6).map(|f| format!("{:?}", f.code)).collect::<Vec<_>>()); }
            Ok((Err(e), _)) => { res["doctor2"] = json!(format!("err:{}", crate::drive::hist::err_kind(&e))); }
            Err(pn) => { res["doctor2"] = json!("panic"); panics.push(pn); }
        }
    }
    if !panics.is_empty() { res["panics"] = json!(panics); }
    res
}

pub fn main(args: &Args) {
    install_panic_hook();
    let mode = args.str("mode").unwrap_or("c22").to_string();
    let scratch = PathBuf::from(args.str("scratch").unwrap_or("."));
    let _ = std::fs::create_dir_all(&scratch);
    let base = args.str("base").map(|p| std::fs::read(p).unwrap_or_default()).unwrap_or_default();
    let plan = std::fs::read_to_string(args.str("plan").unwrap_or("")).unwrap_or_default();
    let f = std::fs::OpenOptions::new().create(true).append(true).open(args.str("results").unwrap_or("results.jsonl")).expect("results file");
    let mut out = Out { f };
    let qs = queries();
    let skip = args.u64("skip", 0) as usize;
    // baseline observation of the unmutated base (C20) through a read-only handle
    let baseline = if mode == "c20" || args.flag("baseline") {
        let p = write_scratch(&scratch, "base.mv2", &base);
        match Memvid::open_read_only(&p) {
            Ok(mut mem) => { let o = observe(&mut mem, &qs, true); let d = doc_view(&mut mem); out.line(&json!({"BASELINE": o, "docs": d})); o }
            Err(e) => { out.line(&json!({"BASELINE_ERROR": e.to_string()})); return; }
        }
    } else { Value::Null };
    for (i, line) in plan.lines().enumerate() {
        if i < skip || line.trim().is_empty() { continue; }
        let Ok(m) = serde_json::from_str::<Value>(line) else { continue };
        let id = m["id"].as_u64().unwrap_or(i as u64);
        let Some(bytes) = apply_mutant(&base, &m) else { out.line(&json!({"id": id, "skipped": "mutant not applicable"})); continue };
        let res = match mode.as_str() {
            "c20" => c20_one(&mut out, id, &bytes, &scratch, &baseline, &qs),
            "c21" => c21_one(&mut out, id, &bytes, &scratch, &m, &qs),
            _ => c22_one(&mut out, id, &bytes, &scratch, &qs),
        };
        out.line(&res);
    }
    out.line(&json!({"DONE": true}));
}
