//! Shared pieces of the verification harness: deterministic RNG, report format, small helpers.

use std::collections::{BTreeMap, BTreeSet};

use serde::Serialize;
use serde_json::{Value, json};

pub mod pure;

#[cfg(feature = "full")]
pub mod drive;
#[cfg(feature = "full")]
pub mod probe;
#[cfg(feature = "full")]
pub mod fault;


/// SplitMix64. Every random choice in the harness comes from one of these, seeded from VERIF_SEED.
#[derive(Clone, Debug)]
pub struct Rng(pub u64);

impl Rng {
    pub fn new(seed: u64) -> Self {
        Rng(seed ^ 0x9E37_79B9_7F4A_7C15)
    }
    pub fn next(&mut self) -> u64 {
        self.0 = self.0.wrapping_add(0x9E37_79B9_7F4A_7C15);
        let mut z = self.0;
        z = (z ^ (z >> 30)).wrapping_mul(0xBF58_476D_1CE4_E5B9);
        z = (z ^ (z >> 27)).wrapping_mul(0x94D0_49BB_1331_11EB);
        z ^ (z >> 31)
    }
    /// Uniform in 0..n (n > 0).
    pub fn below(&mut self, n: u64) -> u64 {
        if n == 0 { 0 } else { self.next() % n }
    }
    pub fn range(&mut self, lo: i64, hi_incl: i64) -> i64 {
        if hi_incl <= lo {
            return lo;
        }
        let span = (hi_incl as i128 - lo as i128 + 1) as u128;
        let v = (self.next() as u128) % span;
        (lo as i128 + v as i128) as i64
    }
    pub fn usize(&mut self, lo: usize, hi_incl: usize) -> usize {
        self.range(lo as i64, hi_incl as i64) as usize
    }
    pub fn chance(&mut self, num: u64, den: u64) -> bool {
        self.below(den) < num
    }
    pub fn pick<T: Copy>(&mut self, items: &[T]) -> T {
        items[self.below(items.len() as u64) as usize]
    }
    pub fn pick_ref<'a, T>(&mut self, items: &'a [T]) -> &'a T {
        &items[self.below(items.len() as u64) as usize]
    }
    pub fn f32_unit(&mut self) -> f32 {
        ((self.next() >> 40) as f32) / ((1u64 << 24) as f32)
    }
    pub fn bytes(&mut self, n: usize) -> Vec<u8> {
        let mut out = Vec::with_capacity(n + 8);
        while out.len() < n {
            out.extend_from_slice(&self.next().to_le_bytes());
        }
        out.truncate(n);
        out
    }
    pub fn fork(&mut self) -> Rng {
        Rng(self.next())
    }
}

pub fn h64(bytes: &[u8]) -> u64 {
    let h = blake3::hash(bytes);
    u64::from_le_bytes(h.as_bytes()[..8].try_into().unwrap())
}

pub fn hex_digest(bytes: &[u8]) -> String {
    blake3::hash(bytes).to_hex()[..16].to_string()
}

#[derive(Serialize, Clone, Debug)]
pub struct Violation {
    /// Deterministic diagnosis key (root cause / site), never derived from the random input.
    pub key: String,
    pub what: String,
    /// Everything needed to replay: seed, concrete history / input, observed vs expected.
    pub detail: Value,
}

/// What one monitor run observed. Serialised to JSON for `check`.
#[derive(Serialize, Debug, Default)]
pub struct Report {
    pub property: String,
    pub monitor: String,
    pub seed: u64,
    pub evaluations: u64,
    #[serde(skip)]
    pub distinct: BTreeSet<u64>,
    pub distinct_nontrivial: u64,
    pub rule: String,
    pub samples: Vec<Value>,
    pub counters: BTreeMap<String, u64>,
    pub violations: Vec<Violation>,
    pub inconclusive: Vec<Value>,
    pub assumptions: Vec<String>,
    /// Names of counters that must be non-zero for the run to count as evidence.
    pub required_counters: Vec<String>,
    /// Exact command line of this monitor process (re-running it reproduces the run).
    pub argv: Vec<String>,
}

impl Report {
    pub fn new(property: &str, monitor: &str, seed: u64, rule: &str) -> Self {
        Report {
            property: property.to_string(),
            monitor: monitor.to_string(),
            seed,
            rule: rule.to_string(),
            ..Default::default()
        }
    }
    pub fn count(&mut self, name: &str) {
        *self.counters.entry(name.to_string()).or_insert(0) += 1;
    }
    pub fn add(&mut self, name: &str, n: u64) {
        *self.counters.entry(name.to_string()).or_insert(0) += n;
    }
    pub fn max(&mut self, name: &str, n: u64) {
        let e = self.counters.entry(name.to_string()).or_insert(0);
        if n > *e {
            *e = n;
        }
    }
    pub fn eval(&mut self) {
        self.evaluations += 1;
    }
    /// Record a distinct non-trivial case by a fingerprint of what made it distinct.
    pub fn nontrivial(&mut self, fingerprint: u64) {
        self.distinct.insert(fingerprint);
    }
    pub fn sample(&mut self, v: Value) {
        if self.samples.len() < 4 {
            self.samples.push(v);
        }
    }
    pub fn require(&mut self, counter: &str) {
        if !self.required_counters.iter().any(|c| c == counter) {
            self.required_counters.push(counter.to_string());
        }
        self.counters.entry(counter.to_string()).or_insert(0);
    }
    pub fn violation(&mut self, key: &str, what: String, detail: Value) {
        // keep at most 3 witnesses per key: further ones add nothing but bulk
        let same = self.violations.iter().filter(|v| v.key == key).count();
        self.add(&format!("violations[{key}]"), 1);
        if same < 3 {
            self.violations.push(Violation {
                key: key.to_string(),
                what,
                detail,
            });
        }
    }
    pub fn inconclusive(&mut self, v: Value) {
        if self.inconclusive.len() < 50 {
            self.inconclusive.push(v);
        }
        self.count("inconclusive_cases");
    }
    pub fn assume(&mut self, s: &str) {
        if !self.assumptions.iter().any(|a| a == s) {
            self.assumptions.push(s.to_string());
        }
    }
    pub fn finish(mut self, out: Option<&str>) {
        self.distinct_nontrivial = self.distinct.len() as u64;
        self.argv = std::env::args().collect();
        let text = serde_json::to_string_pretty(&self).expect("report json");
        match out {
            Some(path) => std::fs::write(path, text).expect("write report"),
            None => println!("{text}"),
        }
    }
}

/// Minimal argv parsing: `--key value` pairs and bare flags.
pub struct Args {
    pub pos: Vec<String>,
    pub kv: BTreeMap<String, String>,
}

impl Args {
    pub fn parse() -> Self {
        let mut pos = Vec::new();
        let mut kv = BTreeMap::new();
        let raw: Vec<String> = std::env::args().skip(1).collect();
        let mut i = 0;
        while i < raw.len() {
            if let Some(key) = raw[i].strip_prefix("--") {
                if i + 1 < raw.len() && !raw[i + 1].starts_with("--") {
                    kv.insert(key.to_string(), raw[i + 1].clone());
                    i += 2;
                } else {
                    kv.insert(key.to_string(), "1".to_string());
                    i += 1;
                }
            } else {
                pos.push(raw[i].clone());
                i += 1;
            }
        }
        Args { pos, kv }
    }
    pub fn u64(&self, key: &str, default: u64) -> u64 {
        self.kv
            .get(key)
            .and_then(|v| v.parse().ok())
            .unwrap_or(default)
    }
    pub fn str(&self, key: &str) -> Option<&str> {
        self.kv.get(key).map(String::as_str)
    }
    pub fn flag(&self, key: &str) -> bool {
        self.kv.contains_key(key)
    }
}

pub fn jstr(bytes: &[u8]) -> Value {
    // printable preview + digest, for samples
    let preview: String = bytes
        .iter()
        .take(48)
        .map(|b| {
            if b.is_ascii_graphic() || *b == b' ' {
                *b as char
            } else {
                '.'
            }
        })
        .collect();
    json!({"len": bytes.len(), "b3": hex_digest(bytes), "preview": preview})
}
