//! C30 (codecs round-trip / reject malformed) and C31 (footer scan vs naive reference).

use std::collections::BTreeMap;
use std::io::Cursor;

use memvid_core::io::header::HeaderCodec;
use memvid_core::types::manifest::{
    LexIndexManifest, LogicMeshManifest, MemoriesTrackManifest, SketchTrackManifest,
    TimeIndexManifest, VecIndexManifest,
};
use memvid_core::types::{
    CanonicalEncoding, Frame, FrameRole, FrameStatus, Header, TextChunkManifest, TextChunkRange, Toc,
};
use memvid_core::{CommitFooter, TimeIndexEntry, find_last_valid_footer, time_index_append, time_index_read};
use serde_json::{Value, json};

use crate::{Report, Rng, h64};

fn arr32(rng: &mut Rng) -> [u8; 32] {
    let mut a = [0u8; 32];
    a.copy_from_slice(&rng.bytes(32));
    a
}

fn rand_u64(rng: &mut Rng) -> u64 {
    match rng.below(6) {
        0 => 0,
        1 => u64::MAX,
        2 => rng.below(1 << 16),
        3 => 1u64 << rng.below(64),
        _ => rng.next(),
    }
}

fn rand_string(rng: &mut Rng, max: usize) -> String {
    let n = rng.usize(0, max);
    let pool = ["a", "Z", "7", " ", "é", "漢", "\u{1F600}", "/", ":", "#", "-", "\n", "\""];
    (0..n).map(|_| rng.pick(&pool)).collect()
}

fn opt<T>(rng: &mut Rng, f: impl FnOnce(&mut Rng) -> T) -> Option<T> {
    if rng.chance(1, 2) { Some(f(rng)) } else { None }
}

pub fn rand_header(rng: &mut Rng) -> Header {
    Header {
        magic: memvid_core::MAGIC,
        version: memvid_core::SPEC_VERSION,
        footer_offset: rand_u64(rng),
        wal_offset: 4096 + if rng.chance(1, 2) { 0 } else { rand_u64(rng) % (u64::MAX - 4096) },
        wal_size: rand_u64(rng).max(1),
        wal_checkpoint_pos: rand_u64(rng),
        wal_sequence: rand_u64(rng),
        toc_checksum: arr32(rng),
    }
}

fn header_eq(a: &Header, b: &Header) -> bool {
    a.magic == b.magic
        && a.version == b.version
        && a.footer_offset == b.footer_offset
        && a.wal_offset == b.wal_offset
        && a.wal_size == b.wal_size
        && a.wal_checkpoint_pos == b.wal_checkpoint_pos
        && a.wal_sequence == b.wal_sequence
        && a.toc_checksum == b.toc_checksum
}

pub fn rand_frame(rng: &mut Rng, id: u64) -> Frame {
    let role = rng.pick(&[FrameRole::Document, FrameRole::DocumentChunk, FrameRole::ExtractedImage]);
    let mut extra = BTreeMap::new();
    for _ in 0..rng.below(3) {
        extra.insert(rand_string(rng, 6), rand_string(rng, 10));
    }
    Frame {
        id,
        timestamp: rand_u64(rng) as i64,
        anchor_ts: opt(rng, |r| r.next() as i64),
        anchor_source: None,
        kind: opt(rng, |r| rand_string(r, 5)),
        track: opt(rng, |r| rand_string(r, 5)),
        payload_offset: rand_u64(rng),
        payload_length: rand_u64(rng),
        checksum: arr32(rng),
        uri: opt(rng, |r| rand_string(r, 12)),
        title: opt(rng, |r| rand_string(r, 12)),
        canonical_encoding: rng.pick(&[CanonicalEncoding::Plain, CanonicalEncoding::Zstd]),
        canonical_length: opt(rng, rand_u64),
        metadata: None,
        search_text: opt(rng, |r| rand_string(r, 40)),
        tags: (0..rng.below(3)).map(|_| rand_string(rng, 6)).collect(),
        labels: (0..rng.below(3)).map(|_| rand_string(rng, 6)).collect(),
        extra_metadata: extra,
        content_dates: (0..rng.below(2)).map(|_| "2024-01-02".to_string()).collect(),
        chunk_manifest: opt(rng, |r| TextChunkManifest {
            chunk_chars: r.usize(0, 3000),
            chunks: (0..r.below(4))
                .map(|i| TextChunkRange { start: i as usize * 10, end: i as usize * 10 + 10 })
                .collect(),
        }),
        role,
        parent_id: opt(rng, rand_u64),
        chunk_index: opt(rng, |r| r.next() as u32),
        chunk_count: opt(rng, |r| r.next() as u32),
        status: rng.pick(&[FrameStatus::Active, FrameStatus::Superseded, FrameStatus::Deleted]),
        supersedes: opt(rng, rand_u64),
        superseded_by: opt(rng, rand_u64),
        source_sha256: opt(rng, arr32),
        source_path: opt(rng, |r| rand_string(r, 10)),
        enrichment_state: rng.pick(&[
            memvid_core::types::EnrichmentState::Searchable,
            memvid_core::types::EnrichmentState::Enriched,
        ]),
    }
}

fn base_toc() -> Result<Toc, String> {
    let z32: Vec<u8> = vec![0; 32];
    let v = json!({
        "toc_version": 2,
        "segments": [],
        "frames": [],
        "indexes": {"lex": null, "lex_segments": [], "vec": null, "clip": null},
        "time_index": null,
        "ticket_ref": {"issuer": "free-tier", "seq_no": 1, "expires_in_secs": 0, "capacity_bytes": 0, "verified": false},
        "merkle_root": z32,
        "toc_checksum": z32,
    });
    serde_json::from_value::<Toc>(v).map_err(|e| e.to_string())
}

pub fn rand_toc(rng: &mut Rng) -> Result<Toc, String> {
    let mut toc = base_toc()?;
    toc.toc_version = rand_u64(rng);
    let n = rng.below(6);
    toc.frames = (0..n).map(|i| rand_frame(rng, i)).collect();
    toc.time_index = opt(rng, |r| TimeIndexManifest {
        bytes_offset: rand_u64(r),
        bytes_length: rand_u64(r),
        entry_count: rand_u64(r),
        checksum: arr32(r),
    });
    toc.indexes.lex = opt(rng, |r| LexIndexManifest {
        doc_count: rand_u64(r),
        generation: rand_u64(r),
        bytes_offset: rand_u64(r),
        bytes_length: rand_u64(r),
        checksum: arr32(r),
    });
    toc.indexes.vec = opt(rng, |r| VecIndexManifest {
        vector_count: rand_u64(r),
        dimension: r.next() as u32,
        bytes_offset: rand_u64(r),
        bytes_length: rand_u64(r),
        checksum: arr32(r),
        compression_mode: Default::default(),
        model: opt(r, |r| rand_string(r, 8)),
    });
    toc.memories_track = opt(rng, |r| MemoriesTrackManifest {
        bytes_offset: rand_u64(r),
        bytes_length: rand_u64(r),
        card_count: rand_u64(r),
        entity_count: rand_u64(r),
        checksum: arr32(r),
    });
    toc.logic_mesh = opt(rng, |r| LogicMeshManifest {
        bytes_offset: rand_u64(r),
        bytes_length: rand_u64(r),
        node_count: rand_u64(r),
        edge_count: rand_u64(r),
        checksum: arr32(r),
    });
    toc.sketch_track = opt(rng, |r| SketchTrackManifest {
        bytes_offset: rand_u64(r),
        bytes_length: rand_u64(r),
        entry_count: rand_u64(r),
        entry_size: 32,
        flags: r.next() as u32,
        checksum: arr32(r),
    });
    toc.ticket_ref.issuer = rand_string(rng, 10);
    toc.ticket_ref.seq_no = rand_u64(rng) as i64;
    toc.ticket_ref.capacity_bytes = rand_u64(rng);
    toc.merkle_root = arr32(rng);
    // seal: checksum over the encoding with a zero checksum field
    toc.toc_checksum = [0u8; 32];
    let bytes = toc.encode().map_err(|e| e.to_string())?;
    toc.toc_checksum = Toc::calculate_checksum(&bytes);
    Ok(toc)
}

pub fn c30(rep: &mut Report, rng: &mut Rng, cases: u64) {
    rep.require("header_roundtrips");
    rep.require("toc_roundtrips");
    rep.require("footer_roundtrips");
    rep.require("time_index_roundtrips");
    rep.require("mutations_rejected");
    for case in 0..cases {
        rep.eval();
        match case % 4 {
            0 => {
                // header
                let h = rand_header(rng);
                match HeaderCodec::encode(&h) {
                    Ok(bytes) => match HeaderCodec::decode(&bytes) {
                        Ok(back) if header_eq(&h, &back) => {
                            rep.count("header_roundtrips");
                            rep.nontrivial(h64(&bytes[..80]));
                            if case < 8 { rep.sample(json!({"codec":"header","footer_offset":h.footer_offset,"wal_offset":h.wal_offset,"wal_size":h.wal_size})); }
                            // mutations the property names: magic, version, spec bytes, wal_offset<4096, wal_size=0
                            let mut m = bytes;
                            let which = rng.below(5);
                            let name = match which {
                                0 => { let i = rng.usize(0, 3); m[i] ^= 1 << rng.below(8); "magic" }
                                1 => { let i = rng.usize(4, 5); m[i] ^= 1 << rng.below(8); "version" }
                                2 => { let i = rng.usize(6, 7); m[i] ^= 1 << rng.below(8); "spec" }
                                3 => { let v = rng.below(4096); m[16..24].copy_from_slice(&v.to_le_bytes()); "wal_offset<4096" }
                                _ => { m[24..32].copy_from_slice(&0u64.to_le_bytes()); "wal_size=0" }
                            };
                            match HeaderCodec::decode(&m) {
                                Err(_) => rep.count("mutations_rejected"),
                                Ok(got) => rep.violation(
                                    &format!("C30:header:accepted-bad-{name}"),
                                    format!("header with corrupted {name} decoded to a value"),
                                    json!({"mode":"c30","codec":"header","mutation":name,"bytes_hex":hex::encode(&m[..80]),"decoded_footer_offset":got.footer_offset}),
                                ),
                            }
                        }
                        Ok(back) => rep.violation("C30:header:roundtrip-differs", "decode(encode(h)) != h".into(),
                            json!({"mode":"c30","codec":"header","bytes_hex":hex::encode(&bytes[..80]),"decoded_wal_size":back.wal_size})),
                        Err(e) => rep.violation("C30:header:roundtrip-error", format!("decode of an encoded valid header failed: {e}"),
                            json!({"mode":"c30","codec":"header","bytes_hex":hex::encode(&bytes[..80])})),
                    },
                    Err(e) => rep.violation("C30:header:encode-error", format!("encode of valid header failed: {e}"), json!({"mode":"c30","codec":"header"})),
                }
            }
            1 => {
                let f = CommitFooter { toc_len: rand_u64(rng), toc_hash: arr32(rng), generation: rand_u64(rng) };
                let bytes = f.encode();
                match CommitFooter::decode(&bytes) {
                    Some(back) if back == f => {
                        rep.count("footer_roundtrips");
                        rep.nontrivial(h64(&bytes));
                        let mut m = bytes.to_vec();
                        let name = if rng.chance(1, 2) {
                            let i = rng.usize(0, 7); m[i] ^= 1 << rng.below(8); "magic"
                        } else if rng.chance(1, 2) { m.push(0); "length+1" } else { m.pop(); "length-1" };
                        match CommitFooter::decode(&m) {
                            None => rep.count("mutations_rejected"),
                            Some(_) => rep.violation(&format!("C30:footer:accepted-bad-{name}"), format!("footer with bad {name} decoded"),
                                json!({"mode":"c30","codec":"footer","mutation":name,"bytes_hex":hex::encode(&m)})),
                        }
                    }
                    other => rep.violation("C30:footer:roundtrip-differs", format!("decode(encode(f)) = {other:?}"),
                        json!({"mode":"c30","codec":"footer","bytes_hex":hex::encode(bytes)})),
                }
            }
            2 => {
                let toc = match rand_toc(rng) { Ok(t) => t, Err(e) => { rep.inconclusive(json!({"reason": e})); continue; } };
                let bytes = match toc.encode() { Ok(b) => b, Err(e) => { rep.violation("C30:toc:encode-error", e.to_string(), json!({"mode":"c30","codec":"toc"})); continue; } };
                match Toc::decode(&bytes) {
                    Ok(back) => {
                        let re = back.encode().unwrap_or_default();
                        if re != bytes || back.frames.len() != toc.frames.len() {
                            rep.violation("C30:toc:roundtrip-differs", "encode(decode(encode(t))) != encode(t)".into(),
                                json!({"mode":"c30","codec":"toc","bytes_hex":hex::encode(&bytes)}));
                            continue;
                        }
                        if let Err(e) = back.verify_checksum() {
                            rep.violation("C30:toc:checksum-rejected-valid", format!("verify_checksum failed on an untouched TOC: {e}"),
                                json!({"mode":"c30","codec":"toc","bytes_hex":hex::encode(&bytes)}));
                            continue;
                        }
                        rep.count("toc_roundtrips");
                        rep.add("toc_frames", toc.frames.len() as u64);
                        rep.nontrivial(h64(&bytes));
                        if case < 12 { rep.sample(json!({"codec":"toc","frames":toc.frames.len(),"encoded_len":bytes.len(),"has_time_index":toc.time_index.is_some()})); }
                        // trailing bytes
                        let mut t = bytes.clone();
                        let extra = rng.usize(1, 5);
                        t.extend_from_slice(&rng.bytes(extra));
                        match Toc::decode(&t) {
                            Err(_) => rep.count("mutations_rejected"),
                            Ok(_) => rep.violation("C30:toc:accepted-trailing-bytes", "TOC with trailing bytes decoded".into(),
                                json!({"mode":"c30","codec":"toc","bytes_hex":hex::encode(&t)})),
                        }
                        // any content byte vs checksum
                        for _ in 0..4 {
                            let mut m = bytes.clone();
                            let i = rng.usize(0, m.len() - 1);
                            m[i] ^= 1 << rng.below(8);
                            match Toc::decode(&m) {
                                Err(_) => rep.count("mutations_rejected"),
                                Ok(d) => match d.verify_checksum() {
                                    Err(_) => rep.count("mutations_rejected"),
                                    Ok(()) => {
                                        if d.encode().unwrap_or_default() != bytes {
                                            rep.violation("C30:toc:checksum-accepts-changed-content", format!("byte {i} flipped, decode and verify_checksum both succeed with a different value"),
                                                json!({"mode":"c30","codec":"toc","offset":i,"bytes_hex":hex::encode(&m)}));
                                        }
                                    }
                                },
                            }
                        }
                    }
                    Err(e) => rep.violation("C30:toc:roundtrip-error", format!("decode of encoded TOC failed: {e}"),
                        json!({"mode":"c30","codec":"toc","bytes_hex":hex::encode(&bytes)})),
                }
            }
            _ => {
                let n = rng.usize(0, 40);
                let mut entries: Vec<TimeIndexEntry> = (0..n).map(|_| {
                    let ts = match rng.below(5) { 0 => i64::MIN, 1 => i64::MAX, 2 => rng.range(-5, 5), _ => rng.next() as i64 };
                    TimeIndexEntry::new(ts, rand_u64(rng) % 50)
                }).collect();
                let prefix = rng.usize(0, 9);
                let mut cur = Cursor::new(vec![0x55u8; prefix]);
                cur.set_position(prefix as u64);
                let (off, len, checksum) = match time_index_append(&mut cur, &mut entries) {
                    Ok(v) => v,
                    Err(e) => { rep.violation("C30:time-index:append-error", e.to_string(), json!({"mode":"c30","codec":"time_index"})); continue; }
                };
                let mut sorted = entries.clone();
                sorted.sort_by_key(|e| (e.timestamp, e.frame_id));
                let buf = cur.into_inner();
                match time_index_read(&mut Cursor::new(buf.clone()), off, len) {
                    Ok(back) if back == sorted && checksum == memvid_core::time_index_checksum(&sorted) => {
                        rep.count("time_index_roundtrips");
                        rep.nontrivial(h64(&buf));
                    }
                    Ok(_) => { rep.violation("C30:time-index:roundtrip-differs", "read(append(entries)) differs".into(), json!({"mode":"c30","codec":"time_index","bytes_hex":hex::encode(&buf),"offset":off,"length":len})); continue; }
                    Err(e) => { rep.violation("C30:time-index:roundtrip-error", e.to_string(), json!({"mode":"c30","codec":"time_index","bytes_hex":hex::encode(&buf),"offset":off,"length":len})); continue; }
                }
                // mutations: magic, count, length, order
                let mut m = buf.clone();
                let o = off as usize;
                let mut mlen = len;
                let which = rng.below(4);
                let name = match which {
                    0 => { m[o + rng.usize(0, 3)] ^= 1 << rng.below(8); "magic" }
                    1 => { let c = (n as u64).wrapping_add(if rng.chance(1,2) {1} else {u64::MAX}); m[o+4..o+12].copy_from_slice(&c.to_le_bytes()); "count" }
                    2 => { mlen = if rng.chance(1,2) { len + 16 } else { len.saturating_sub(16) }; m.extend_from_slice(&[0u8;16]); if mlen == len { continue; } "length" }
                    _ => {
                        // swap two adjacent entries with different keys
                        let mut done = false;
                        for i in 0..sorted.len().saturating_sub(1) {
                            if (sorted[i].timestamp, sorted[i].frame_id) != (sorted[i+1].timestamp, sorted[i+1].frame_id) {
                                let a = o + 12 + i * 16;
                                let (x, y) = m.split_at_mut(a + 16);
                                x[a..a+16].swap_with_slice(&mut y[..16]);
                                done = true;
                                break;
                            }
                        }
                        if !done { continue; }
                        "order"
                    }
                };
                match time_index_read(&mut Cursor::new(m.clone()), off, mlen) {
                    Err(_) => rep.count("mutations_rejected"),
                    Ok(_) => rep.violation(&format!("C30:time-index:accepted-bad-{name}"), format!("time index with inconsistent {name} was read"),
                        json!({"mode":"c30","codec":"time_index","mutation":name,"bytes_hex":hex::encode(&m),"offset":off,"length":mlen})),
                }
            }
        }
    }
}

/// Naive reference: the valid footer ending at the highest offset.
fn naive_scan(bytes: &[u8]) -> Option<(usize, usize, CommitFooter)> {
    const FS: usize = 56;
    if bytes.len() < FS {
        return None;
    }
    let mut pos = bytes.len() - FS;
    loop {
        if &bytes[pos..pos + 8] == b"MV2FOOT!" {
            let toc_len = u64::from_le_bytes(bytes[pos + 8..pos + 16].try_into().unwrap());
            let mut hash = [0u8; 32];
            hash.copy_from_slice(&bytes[pos + 16..pos + 48]);
            let generation = u64::from_le_bytes(bytes[pos + 48..pos + 56].try_into().unwrap());
            if toc_len >= 1 && toc_len <= pos as u64 {
                let toc_len = toc_len as usize;
                let toc = &bytes[pos - toc_len..pos];
                if blake3::hash(toc).as_bytes() == &hash {
                    return Some((pos, pos - toc_len, CommitFooter { toc_len: toc_len as u64, toc_hash: hash, generation }));
                }
            }
        }
        if pos == 0 {
            return None;
        }
        pos -= 1;
    }
}

fn plant(buf: &mut Vec<u8>, rng: &mut Rng, kind: u64) -> &'static str {
    let toc_len = rng.usize(1, 40);
    let toc = rng.bytes(toc_len);
    let mut hash = *blake3::hash(&toc).as_bytes();
    let mut len_field = toc_len as u64;
    // a footer whose own fields contain the footer magic (kind 5: its generation spells it): a scan that meets that inner
    // "footer" first must come back to the real one, which starts only a few bytes lower
    let magic_generation = u64::from_le_bytes(*b"MV2FOOT!");
    let name = match kind {
        0 => "valid",
        5 => "valid-with-magic-in-generation",
        1 => { hash[rng.usize(0, 31)] ^= 1; "wrong-hash" }
        2 => { len_field = buf.len() as u64 + toc_len as u64 + 1 + rng.below(1000); "oversized-length" }
        3 => { len_field = 0; "zero-length" }
        _ => "valid",
    };
    buf.extend_from_slice(&toc);
    let f = CommitFooter { toc_len: len_field, toc_hash: hash, generation: if kind == 5 { magic_generation } else { rng.below(1000) } };
    buf.extend_from_slice(&f.encode());
    name
}

pub fn c31(rep: &mut Report, rng: &mut Rng, cases: u64) {
    rep.require("found_some");
    rep.require("found_none");
    rep.require("skipped_invalid_later_footer");
    for case in 0..cases {
        rep.eval();
        let mut buf: Vec<u8> = Vec::new();
        let mut planted: Vec<&str> = Vec::new();
        let segs = rng.below(5);
        for _ in 0..segs {
            // filler rich in 'M' bytes and partial magics
            let n = rng.usize(0, 120);
            for _ in 0..n {
                let b = match rng.below(8) { 0 => b'M', 1 => b'V', 2 => b'2', 3 => 0, _ => rng.next() as u8 };
                buf.push(b);
            }
            if rng.chance(1, 4) { buf.extend_from_slice(b"MV2FOOT"); }
            if rng.chance(3, 4) {
                let kind = rng.below(6);
                planted.push(plant(&mut buf, rng, kind));
                // bytes behind the footer, so that a magic inside it is followed by a full footer's worth of data
                if kind == 5 {
                    // the inner "footer" (magic = the real footer's generation) takes its length field from the first bytes behind
                    // the real footer: make it plausible (small), so that the inner candidate gets as far as the hash comparison
                    buf.extend_from_slice(&(rng.usize(1, 40) as u64).to_le_bytes());
                    let n = rng.usize(40, 90);
                    buf.extend(rng.bytes(n));
                } else if rng.chance(1, 6) { let n = rng.usize(40, 90); buf.extend(rng.bytes(n)); }
            }
        }
        match rng.below(6) {
            0 => { let cut = rng.usize(0, 56.min(buf.len())); buf.truncate(buf.len() - cut); planted.push("truncated-tail"); }
            1 => { let n = rng.usize(0, 70); buf.extend(rng.bytes(n)); }
            2 if buf.len() > 60 => {
                // overlapping: write a footer magic inside the previous footer's hash
                let at = buf.len() - rng.usize(20, 50);
                let end = (at + 8).min(buf.len());
                buf[at..end].copy_from_slice(&b"MV2FOOT!"[..end - at]);
                planted.push("overlapping-magic");
            }
            _ => {}
        }
        let expect = naive_scan(&buf);
        let got = find_last_valid_footer(&buf);
        let same = match (&expect, &got) {
            (None, None) => { rep.count("found_none"); true }
            (Some((fo, to, f)), Some(g)) => {
                rep.count("found_some");
                // was a later (higher-offset) near-valid footer skipped?
                if buf[fo + 56..].windows(8).any(|w| w == b"MV2FOOT!") { rep.count("skipped_invalid_later_footer"); }
                g.footer_offset == *fo && g.toc_offset == *to && g.footer == *f && g.toc_bytes == &buf[*to..*fo]
            }
            _ => false,
        };
        rep.nontrivial(h64(&buf));
        if case < 3 { rep.sample(json!({"len": buf.len(), "planted": planted, "expected_footer_offset": expect.as_ref().map(|e| e.0)})); }
        if !same {
            let key = match (&expect, &got) {
                (Some(_), None) => "C31:missed-valid-footer",
                (None, Some(_)) => "C31:accepted-invalid-footer",
                _ => "C31:wrong-footer-or-toc-bytes",
            };
            rep.violation(key, format!("scan returned offset {:?}, reference {:?}", got.as_ref().map(|g| g.footer_offset), expect.as_ref().map(|e| e.0)),
                json!({"mode":"c31","bytes_hex":hex::encode(&buf),"planted":planted}));
        }
    }
}

pub fn replay_c31(rep: &mut Report, detail: &Value) {
    let Some(hexs) = detail.get("bytes_hex").and_then(Value::as_str) else { return };
    let Ok(buf) = hex::decode(hexs) else { return };
    rep.eval();
    let expect = naive_scan(&buf);
    let got = find_last_valid_footer(&buf);
    let same = match (&expect, &got) {
        (None, None) => true,
        (Some((fo, to, f)), Some(g)) => g.footer_offset == *fo && g.toc_offset == *to && g.footer == *f,
        _ => false,
    };
    if !same {
        rep.violation("C31:replayed", "replayed input still disagrees with the reference scan".into(), detail.clone());
    }
}
