//! C33 normalize_text, C34 chunk planning, C35 snippet slices, C36 PII masking.

use std::panic::{AssertUnwindSafe, catch_unwind};

use memvid_core::pii::{contains_pii, mask_pii};
use memvid_core::structure::detect_structure;
use memvid_core::verif_hooks;
use memvid_core::{normalize_text, truncate_at_grapheme_boundary};
use serde_json::json;
use unicode_normalization::{UnicodeNormalization, is_nfkc};
use unicode_segmentation::UnicodeSegmentation;

use crate::{Report, Rng, h64};

pub const POOL: &[&str] = &[
    "a", "b", "Z", "q", "7", "0", ".", ",", "!", "?", ";", "-", "(", ")", "|", "`", "#",
    " ", " ", " ", "  ", "\t", "\n", "\n", "\r", "\r\n", "\n\n",
    "\u{00A0}", "\u{2002}", "\u{3000}", "\u{2028}", "\u{2029}", "\u{0085}", "\u{000B}", "\u{000C}",
    "\u{0000}", "\u{0001}", "\u{001B}", "\u{007F}", "\u{009F}",
    "\u{200B}", "\u{200D}", "\u{FEFF}", "\u{00AD}",
    "\u{0301}", "\u{0308}", "\u{0323}", "\u{20DD}",
    "é", "e\u{0301}", "ﬁ", "①", "ｶ", "㎏", "²", "Ǆ", "ℌ", "Ω", "ſ", "ẛ\u{0323}",
    "\u{1100}\u{1161}", "한", "漢", "ß", "İ",
    "\u{1F600}", "👨\u{200D}👩\u{200D}👧", "🇺🇸", "👍🏽", "e\u{0301}\u{0308}\u{0323}\u{0301}\u{0308}\u{0323}\u{0301}\u{0308}",
    "word", "Hello", "the", "table",
];

pub fn rand_unicode(rng: &mut Rng, max_parts: usize) -> String {
    let n = rng.usize(0, max_parts);
    let mut s = String::new();
    for _ in 0..n {
        s.push_str(rng.pick(POOL));
    }
    s
}

fn grapheme_boundaries(s: &str) -> Vec<usize> {
    let mut b: Vec<usize> = s.grapheme_indices(true).map(|(i, _)| i).collect();
    b.push(s.len());
    b
}

pub fn check_normalized(input: &str, limit: usize) -> Vec<(String, String)> {
    let mut bad = Vec::new();
    let Some(n) = normalize_text(input, limit) else {
        // None is only right when nothing but whitespace/control remains
        let residue: String = input.nfkc().filter(|c| !c.is_control() && !c.is_whitespace()).collect();
        if !residue.is_empty() {
            bad.push(("C33:none-for-nonempty".into(), format!("normalize_text returned None but {residue:?} remains")));
        }
        return bad;
    };
    let out = &n.text;
    let limit_eff = limit.max(1);
    let tr = if n.truncated { "after-truncation" } else { "untruncated" };
    if !is_nfkc(out) {
        bad.push((format!("C33:not-nfkc:{tr}"), "output is not NFKC".into()));
    }
    if out.chars().any(|c| c.is_control() && c != '\n') {
        bad.push((format!("C33:control-char:{tr}"), "output contains a control character other than newline".into()));
    }
    if out.chars().next().is_some_and(char::is_whitespace) {
        bad.push((format!("C33:leading-whitespace:{tr}"), "output starts with whitespace".into()));
    }
    if out.chars().last().is_some_and(char::is_whitespace) {
        bad.push((format!("C33:trailing-whitespace:{tr}"), "output ends with whitespace".into()));
    }
    if out.contains("  ") {
        bad.push((format!("C33:space-run:{tr}"), "output contains a run of spaces".into()));
    }
    if out.contains("\n\n") {
        bad.push((format!("C33:blank-line:{tr}"), "output contains a blank line".into()));
    }
    let first_len = out.graphemes(true).next().map_or(0, str::len);
    if out.len() > limit_eff && !(first_len > limit_eff && out.len() == first_len) {
        bad.push(("C33:over-limit".into(), format!("output has {} bytes, limit {limit_eff}", out.len())));
    }
    if n.truncated {
        // ends on a grapheme boundary of the untruncated normal form
        if let Some(full) = normalize_text(input, usize::MAX) {
            if !full.text.starts_with(out.as_str()) || !grapheme_boundaries(&full.text).contains(&out.len()) {
                bad.push(("C33:truncation-not-on-grapheme-boundary".into(), "truncated output is not a grapheme-boundary prefix of the full normal form".into()));
            }
        }
    } else {
        match normalize_text(out, usize::MAX) {
            Some(again) if again.text == *out => {}
            other => bad.push(("C33:not-a-fixed-point".into(), format!("normalizing the untruncated output again gives {:?}", other.map(|o| o.text)))),
        }
    }
    bad
}

pub fn c33(rep: &mut Report, rng: &mut Rng, cases: u64) {
    rep.require("truncated_cases");
    rep.require("untruncated_cases");
    rep.require("truncate_fn_cases");
    for case in 0..cases {
        rep.eval();
        let parts = if rng.chance(1, 10) { 200 } else { 14 };
        let input = rand_unicode(rng, parts);
        let limit = match rng.below(8) { 0 => usize::MAX, 1 => 0, 2 => 1, _ => rng.usize(1, 64) };
        if let Some(n) = normalize_text(&input, limit) {
            rep.count(if n.truncated { "truncated_cases" } else { "untruncated_cases" });
            rep.nontrivial(h64(n.text.as_bytes()) ^ limit as u64);
        } else {
            rep.count("none_cases");
        }
        for (key, what) in check_normalized(&input, limit) {
            rep.violation(&key, what, json!({"mode":"c33","input": input, "limit": limit}));
        }
        // truncate_at_grapheme_boundary
        rep.count("truncate_fn_cases");
        let s = if rng.chance(1, 2) { input.clone() } else { rand_unicode(rng, 8) };
        let lim = rng.usize(0, 40);
        let idx = truncate_at_grapheme_boundary(&s, lim);
        let bounds = grapheme_boundaries(&s);
        let first = s.graphemes(true).next().map_or(0, str::len);
        if !bounds.contains(&idx) {
            rep.violation("C33:truncate-fn:not-a-boundary", format!("returned {idx}, boundaries {bounds:?}"), json!({"mode":"c33t","input": s, "limit": lim}));
        } else if idx > lim && !(first > lim && idx == first) {
            rep.violation("C33:truncate-fn:over-limit", format!("returned {idx} > limit {lim}"), json!({"mode":"c33t","input": s, "limit": lim}));
        }
        if case < 3 {
            rep.sample(json!({"input": input, "limit": limit, "output": normalize_text(&input, limit).map(|n| n.text)}));
        }
    }
}

// ---------------------------------------------------------------- C34

fn rand_sentence(rng: &mut Rng, ascii_only: bool) -> String {
    let words = if ascii_only { ["alpha", "beta", "gamma", "delta", "omega", "repeat", "kanji", "data", "flow", "x"] } else { ["alpha", "beta", "gamma", "delta", "omega", "répété", "漢字", "data", "flow", "x"] };
    let n = rng.usize(1, 14);
    let mut s: Vec<&str> = Vec::new();
    for _ in 0..n {
        s.push(rng.pick(&words));
    }
    let end = rng.pick(&[".", ".", "!", "?", "", ";"]);
    format!("{}{}", s.join(" "), end)
}

pub fn rand_document(rng: &mut Rng, target_chars: usize, structured: bool) -> String {
    let mut out = String::new();
    // in a third of the documents a few multi-byte words come first: character and byte offsets then differ
    // for the whole (otherwise mostly ASCII) text
    if rng.chance(1, 3) {
        for _ in 0..rng.usize(1, 5) {
            out.push_str(rng.pick(&["café", "naïve", "Éléonore", "漢字", "😀", "straße", "señor"]));
            out.push(' ');
        }
    }
    // half of the documents have a pure-ASCII body (so whole chunks are ASCII), the others mix scripts everywhere
    let ascii_body = rng.chance(1, 2);
    while out.chars().count() < target_chars {
        let roll = rng.below(100);
        if structured && roll < 8 {
            let cols = rng.usize(2, 4);
            let max_rows = if rng.chance(1, 4) { 60 } else { 6 };
            let rows = rng.usize(2, max_rows);
            out.push('\n');
            out.push_str(&format!("|{}|\n", (0..cols).map(|c| format!(" H{c} ")).collect::<Vec<_>>().join("|")));
            out.push_str(&format!("|{}|\n", (0..cols).map(|_| "---").collect::<Vec<_>>().join("|")));
            for r in 0..rows {
                out.push_str(&format!("|{}|\n", (0..cols).map(|c| format!(" r{r}c{c} {} ", rng.below(1000))).collect::<Vec<_>>().join("|")));
            }
            out.push('\n');
        } else if structured && roll < 14 {
            out.push_str("\n```rust\n");
            let max_lines = if rng.chance(1, 4) { 80 } else { 8 };
            for i in 0..rng.usize(1, max_lines) {
                out.push_str(&format!("let v{i} = {};\n", rng.below(100)));
            }
            out.push_str("```\n");
        } else if roll < 30 {
            out.push_str(&rand_sentence(rng, ascii_body));
            out.push_str(rng.pick(&["\n", "\n\n", "\r\n", "  \n"]));
        } else if roll < 33 {
            // long run without sentence terminals or whitespace
            for _ in 0..rng.usize(100, 1700) {
                out.push(if ascii_body { rng.pick(&['x', 'y', 'z', 'w']) } else { rng.pick(&['x', 'y', 'é', '漢']) });
            }
            out.push(' ');
        } else {
            out.push_str(&rand_sentence(rng, ascii_body));
            out.push_str(rng.pick(&[" ", "  ", "\t", " "]));
        }
    }
    out
}

pub fn check_chunk_plan(text: &str) -> (Option<&'static str>, Vec<(String, String)>) {
    let mut bad = Vec::new();
    let Some(norm) = normalize_text(text, usize::MAX).map(|n| n.text) else {
        return (None, bad);
    };
    let total = norm.chars().count();
    let plan = verif_hooks::plan_text_chunks(text);
    let structured = detect_structure(&norm).has_structure();
    let Some((_chars, ranges, chunks)) = plan else {
        return (None, bad);
    };
    if ranges.len() != chunks.len() {
        bad.push(("C34:manifest-chunk-count-mismatch".into(), format!("{} ranges, {} chunks", ranges.len(), chunks.len())));
    }
    if chunks.iter().any(|c| c.is_empty()) {
        let k = if structured { "structured" } else { "unstructured" };
        bad.push((format!("C34:empty-chunk:{k}"), "a planned chunk is empty".into()));
    }
    if !structured {
        let mut pos = 0usize;
        for (i, (s, e)) in ranges.iter().enumerate() {
            if *s != pos {
                bad.push(("C34:ranges-not-contiguous".into(), format!("range {i} starts at {s}, previous ended at {pos}")));
                break;
            }
            if e <= s {
                bad.push(("C34:empty-range".into(), format!("range {i} = {s}..{e}")));
                break;
            }
            pos = *e;
        }
        if bad.is_empty() && pos != total {
            bad.push(("C34:ranges-do-not-cover".into(), format!("last range ends at {pos}, text has {total} chars")));
        }
        if chunks.concat() != norm {
            bad.push(("C34:concat-differs".into(), "chunk texts do not concatenate to the normalized text".into()));
        }
        (Some("unstructured"), bad)
    } else {
        // The structural chunker re-renders tables (`|---|` becomes `| --- |`), so a line "appears"
        // when it does so modulo whitespace; anything stricter would be the oracle's own demand.
        let squeeze = |s: &str| s.chars().filter(|c| !c.is_whitespace()).collect::<String>();
        let squeezed: Vec<String> = chunks.iter().map(|c| squeeze(c)).collect();
        for line in norm.lines() {
            let t = squeeze(line);
            if t.is_empty() {
                continue;
            }
            if !squeezed.iter().any(|c| c.contains(&t)) {
                bad.push(("C34:structured:line-missing".into(), format!("line {t:?} of the normalized text occurs in no chunk")));
                break;
            }
        }
        (Some("structured"), bad)
    }
}

pub fn c34(rep: &mut Report, rng: &mut Rng, cases: u64) {
    rep.require("unstructured_plans");
    rep.require("structured_plans");
    rep.require("below_threshold");
    for case in 0..cases {
        rep.eval();
        let structured = rng.chance(2, 5);
        let target = match rng.below(6) {
            0 => rng.usize(2350, 2450),
            1 => rng.usize(100, 2300),
            2 => rng.usize(6000, 12000),
            _ => rng.usize(2400, 6000),
        };
        let text = rand_document(rng, target, structured);
        let res = catch_unwind(AssertUnwindSafe(|| check_chunk_plan(&text)));
        match res {
            Err(_) => rep.violation("C34:panic", "chunk planning panicked".into(), json!({"mode":"c34","text": text})),
            Ok((kind, bad)) => {
                match kind {
                    Some("unstructured") => rep.count("unstructured_plans"),
                    Some(_) => rep.count("structured_plans"),
                    None => rep.count("below_threshold"),
                }
                if kind.is_some() {
                    rep.nontrivial(h64(text.as_bytes()));
                }
                if case < 2 {
                    rep.sample(json!({"chars": text.chars().count(), "kind": kind, "head": text.chars().take(80).collect::<String>()}));
                }
                for (key, what) in bad {
                    rep.violation(&key, what, json!({"mode":"c34","text": text}));
                }
            }
        }
    }
}

// ---------------------------------------------------------------- C35

pub fn check_snippets(text: &str, occ: &[(usize, usize)], window: usize, max: usize) -> Vec<(String, String)> {
    let mut bad = Vec::new();
    let res = catch_unwind(AssertUnwindSafe(|| verif_hooks::compute_snippet_slices(text, occ, window, max)));
    let slices = match res {
        Ok(s) => s,
        Err(_) => {
            let oob = occ.iter().any(|(s, e)| *s > text.len() || *e > text.len());
            let huge = occ.iter().any(|(_, e)| e.checked_add(window / 2).is_none());
            let k = if huge { "arith-overflow" } else if oob { "out-of-bounds-occurrence" } else { "in-bounds" };
            bad.push((format!("C35:panic:{k}"), "compute_snippet_slices panicked".into()));
            return bad;
        }
    };
    let sorted = occ.windows(2).all(|w| w[0].0 <= w[1].0);
    let cls = if sorted { "sorted-occurrences" } else { "unsorted-occurrences" };
    if slices.len() > max.max(1) {
        bad.push((format!("C35:too-many:{cls}"), format!("{} slices, max {max}", slices.len())));
    }
    let mut prev_end: Option<usize> = None;
    let mut prev_start: Option<usize> = None;
    for (s, e) in &slices {
        if s >= e {
            let why = if window == 0 { "window-zero".to_string() } else { cls.to_string() };
            bad.push((format!("C35:empty-slice:{why}"), format!("slice {s}..{e}")));
        } else if *e > text.len() {
            bad.push((format!("C35:outside-text:{cls}"), format!("slice {s}..{e}, text len {}", text.len())));
        } else if !text.is_char_boundary(*s) || !text.is_char_boundary(*e) {
            bad.push((format!("C35:not-char-boundary:{cls}"), format!("slice {s}..{e}")));
        } else if catch_unwind(AssertUnwindSafe(|| text[*s..*e].len())).is_err() {
            bad.push((format!("C35:slicing-panics:{cls}"), format!("slice {s}..{e}")));
        }
        if let (Some(pe), Some(ps)) = (prev_end, prev_start) {
            if *s < pe || *s <= ps {
                bad.push((format!("C35:not-increasing-or-overlapping:{cls}"), format!("slice {s}..{e} after one ending at {pe}")));
            }
        }
        prev_end = Some(*e);
        prev_start = Some(*s);
    }
    bad.dedup_by(|a, b| a.0 == b.0);
    bad
}

pub fn c35(rep: &mut Report, rng: &mut Rng, cases: u64) {
    rep.require("multi_slice_results");
    rep.require("oob_occurrence_cases");
    for case in 0..cases {
        rep.eval();
        let text = if rng.chance(1, 8) { String::new() } else { rand_unicode(rng, 60) };
        let n = rng.usize(0, 6);
        let len = text.len();
        let mut occ: Vec<(usize, usize)> = (0..n)
            .map(|_| {
                let s = match rng.below(10) { 0 => usize::MAX - rng.usize(0, 3), 1 => len + rng.usize(0, 50), _ => rng.usize(0, len) };
                let e = match rng.below(10) { 0 => usize::MAX - rng.usize(0, 3), 1 => s.saturating_add(rng.usize(0, 400)), 2 => s.saturating_sub(rng.usize(0, 5)), _ => s.saturating_add(rng.usize(0, 12)) };
                (s, e)
            })
            .collect();
        if rng.chance(2, 3) {
            occ.sort_unstable();
        }
        if occ.iter().any(|(s, e)| *s > len || *e > len) {
            rep.count("oob_occurrence_cases");
        }
        let window = match rng.below(6) { 0 => 0, 1 => usize::MAX, _ => rng.usize(0, 500) };
        let max = rng.usize(0, 10);
        let bad = check_snippets(&text, &occ, window, max);
        if let Ok(sl) = catch_unwind(AssertUnwindSafe(|| verif_hooks::compute_snippet_slices(&text, &occ, window, max))) {
            if sl.len() > 1 { rep.count("multi_slice_results"); }
            rep.nontrivial(h64(format!("{sl:?}{}", text.len()).as_bytes()));
        }
        if case < 3 {
            rep.sample(json!({"text_len": len, "occurrences": occ, "window": window, "max": max}));
        }
        for (key, what) in bad {
            rep.violation(&key, what, json!({"mode":"c35","text": text, "occurrences": occ, "window": window, "max": max}));
        }
    }
}

// ---------------------------------------------------------------- C36

fn digits(rng: &mut Rng, n: usize) -> String {
    (0..n).map(|_| char::from(b'0' + rng.below(10) as u8)).collect()
}

fn letters(rng: &mut Rng, n: usize, upper: bool) -> String {
    (0..n).map(|_| { let c = b'a' + rng.below(26) as u8; if upper { (c as char).to_ascii_uppercase() } else { c as char } }).collect()
}

/// Secrets made of letters only, in a text without any digit, '@' or '_' (a masker must not take the
/// absence of those characters for the absence of PII).
fn rand_letters_only_pii(rng: &mut Rng) -> String {
    let mut s = String::new();
    for _ in 0..rng.usize(1, 4) {
        let frag = match rng.below(6) {
            0 => format!("{}{}", rng.pick(&["apikey=", "api-key: ", "APIKEY:", "api-key=\""]), { let n = rng.usize(20, 36); letters(rng, n, false) }),
            1 => format!("AKIA{}", letters(rng, 16, true)),
            2 => format!("{}.{}.{}", { let n = rng.usize(40, 60); letters(rng, n, false) }, { let n = rng.usize(6, 12); letters(rng, n, false) }, { let n = rng.usize(6, 12); letters(rng, n, true) }),
            3 => format!("ghp-{}", letters(rng, 12, false)),
            _ => rng.pick(&["hello", "the quick fox", "my key is", "token follows", "€"]).to_string(),
        };
        s.push_str(&frag);
        s.push_str(rng.pick(&[" ", ", ", "\n", ": "]));
    }
    s
}

pub fn rand_pii_text(rng: &mut Rng) -> String {
    if rng.chance(1, 6) { return rand_letters_only_pii(rng); }
    let mut s = String::new();
    for _ in 0..rng.usize(0, 8) {
        let sep = rng.pick(&["-", " ", ".", "", "/"]);
        let frag = match rng.below(16) {
            0 => format!("{}@{}.{}", rng.pick(&["john.doe", "a", "x_y+z", "ÉMILE"]), rng.pick(&["example", "mail-server", "a"]), rng.pick(&["com", "org", "io", "c"])),
            1 => format!("{}{sep}{}{sep}{}", digits(rng, 3), digits(rng, 2), digits(rng, 4)),
            2 => format!("{}{sep}{}{sep}{}{sep}{}", digits(rng, 4), digits(rng, 4), digits(rng, 4), digits(rng, 4)),
            3 => format!("({}) {}{sep}{}", digits(rng, 3), digits(rng, 3), digits(rng, 4)),
            4 => format!("+1{sep}{}{sep}{}{sep}{}", digits(rng, 3), digits(rng, 3), digits(rng, 4)),
            5 => format!("{}.{}.{}.{}", rng.below(300), rng.below(300), rng.below(300), rng.below(300)),
            6 => { let n = rng.usize(4, 24); format!("{}{}", rng.pick(&["sk-", "sk_live_", "pk_test_", "AKIA", "ghp_", "api_key=", "Bearer "]), hex::encode(rng.bytes(n))) }
            7 => { let n = rng.usize(1, 20); digits(rng, n) }
            8 => { let n = rng.usize(1, 6); format!("{}{}", digits(rng, n), sep) }
            9 => "[EMAIL]".to_string(),
            10 => "[SSN] [PHONE] [CREDIT_CARD] [IP_ADDRESS] [API_KEY]".to_string(),
            11 => format!("2024-{:02}-{:02}", rng.range(1, 12), rng.range(1, 28)),
            12 => format!("{}@", rng.pick(&["user", "@@", "a.b"])),
            _ => rng.pick(&["hello", "the quick fox", "call me at", "my card is", "order #", "v1.2.3.4", "€", "\n"]).to_string(),
        };
        s.push_str(&frag);
        s.push_str(rng.pick(&[" ", " ", ", ", "", "\n", ":"]));
    }
    s
}

pub fn check_pii(s: &str) -> Vec<(String, String)> {
    let mut bad = Vec::new();
    let masked = mask_pii(s);
    let had = contains_pii(s);
    let twice = mask_pii(&masked);
    // which detector still fires on the masked text: the placeholder a second pass adds
    let residual = ["[EMAIL]", "[SSN]", "[CREDIT_CARD]", "[PHONE]", "[IP_ADDRESS]", "[API_KEY]", "[TOKEN]"]
        .iter()
        .find(|p| twice.matches(**p).count() > masked.matches(**p).count())
        .copied()
        .unwrap_or("none");
    if contains_pii(&masked) {
        bad.push((format!("C36:masked-output-still-detected:{residual}"), format!("contains_pii(mask_pii(s)) is true; masked = {masked:?}")));
    }
    if twice != masked {
        bad.push((format!("C36:not-idempotent:{residual}"), format!("mask(mask(s)) = {twice:?} != mask(s) = {masked:?}")));
    }
    if !had && masked != s {
        bad.push(("C36:changed-text-without-detected-pii".into(), format!("contains_pii(s) is false but mask_pii changed it to {masked:?}")));
    }
    bad
}

pub fn c36(rep: &mut Report, rng: &mut Rng, cases: u64) {
    rep.require("inputs_with_pii");
    rep.require("inputs_without_pii");
    for case in 0..cases {
        rep.eval();
        let s = rand_pii_text(rng);
        if contains_pii(&s) { rep.count("inputs_with_pii"); rep.nontrivial(h64(mask_pii(&s).as_bytes())); } else { rep.count("inputs_without_pii"); }
        if case < 3 { rep.sample(json!({"input": s, "masked": mask_pii(&s)})); }
        for (key, what) in check_pii(&s) {
            rep.violation(&key, what, json!({"mode":"c36","input": s}));
        }
    }
}
