//! Pure-function monitors (engine E5). Everything here also runs under Miri (no FFI is reached).

pub mod codecs;
pub mod misc;
pub mod num;
pub mod query;
pub mod text;
pub mod wal;
