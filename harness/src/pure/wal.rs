//! C05 — EmbeddedWal against a sequential reference model (list of records since last checkpoint).
//!
//! Two workloads: (a) systematic breadth-first exploration of operation sequences over small
//! regions with state de-duplication (each distinct state is re-reached by replaying its path on a
//! fresh file, because the in-memory cursors cannot be restored any other way); (b) random long
//! histories over realistic region sizes. The oracle uses public API only; `verif_state` (hook) is
//! used to de-duplicate and to key findings.

use std::collections::{BTreeMap, HashSet};
use std::fs::{File, OpenOptions};
use std::io::{Read, Seek, SeekFrom, Write};

use memvid_core::types::Header;
use memvid_core::{EmbeddedWal, MemvidError};
use serde_json::{Value, json};

use crate::{Report, Rng, h64};

const HDR: u64 = 48;
const WAL_OFF: u64 = 4096;

#[derive(Clone, Debug, PartialEq, Eq, Hash)]
pub enum Op {
    Append(u32),
    Checkpoint,
    Pending,
    Stats,
    After(u8), // records_after(checkpoint + k)
    Reopen,
    ReopenRo,
}

impl Op {
    fn to_json(&self) -> Value {
        match self {
            Op::Append(n) => json!({"append": n}),
            Op::Checkpoint => json!("checkpoint"),
            Op::Pending => json!("pending_records"),
            Op::Stats => json!("stats"),
            Op::After(k) => json!({"records_after_checkpoint_plus": k}),
            Op::Reopen => json!("reopen"),
            Op::ReopenRo => json!("reopen_read_only_scan"),
        }
    }
    pub fn from_json(v: &Value) -> Option<Op> {
        if let Some(s) = v.as_str() {
            return Some(match s {
                "checkpoint" => Op::Checkpoint,
                "pending_records" => Op::Pending,
                "stats" => Op::Stats,
                "reopen" => Op::Reopen,
                "reopen_read_only_scan" => Op::ReopenRo,
                _ => return None,
            });
        }
        if let Some(n) = v.get("append").and_then(Value::as_u64) {
            return Some(Op::Append(n as u32));
        }
        if let Some(k) = v.get("records_after_checkpoint_plus").and_then(Value::as_u64) {
            return Some(Op::After(k as u8));
        }
        None
    }
}

fn payload_for(seq: u64, len: u32) -> Vec<u8> {
    (0..len as u64)
        .map(|i| (seq.wrapping_mul(131).wrapping_add(i * 7).wrapping_add(len as u64) & 0xff) as u8 | 1)
        .collect()
}

struct Sut {
    file: File,
    header: Header,
    wal: EmbeddedWal,
    region: u64,
    // model
    pending: Vec<(u64, Vec<u8>)>,
    last_seq: u64,
    ckpt_seq: u64,
}

pub struct Outcome {
    pub key: String,
    pub what: String,
}

fn new_header(region: u64) -> Header {
    Header {
        magic: memvid_core::MAGIC,
        version: 0x0201,
        footer_offset: WAL_OFF + region,
        wal_offset: WAL_OFF,
        wal_size: region,
        wal_checkpoint_pos: 0,
        wal_sequence: 0,
        toc_checksum: [0u8; 32],
    }
}

impl Sut {
    fn create(dir: &std::path::Path, region: u64, tag: u64) -> std::io::Result<Sut> {
        let path = dir.join(format!("wal-{tag}.bin"));
        let mut file = OpenOptions::new()
            .read(true)
            .write(true)
            .create(true)
            .truncate(true)
            .open(&path)?;
        // unlink at once: the open descriptor keeps it alive, nothing is left behind
        let _ = std::fs::remove_file(&path);
        file.write_all(&vec![0xCDu8; WAL_OFF as usize])?;
        file.write_all(&vec![0u8; region as usize])?;
        file.write_all(&[0xABu8; 64])?;
        let header = new_header(region);
        let wal = EmbeddedWal::open(&file, &header).map_err(|e| std::io::Error::other(e.to_string()))?;
        Ok(Sut {
            file,
            header,
            wal,
            region,
            pending: Vec::new(),
            last_seq: 0,
            ckpt_seq: 0,
        })
    }

    fn region_hash(&mut self) -> u64 {
        let mut buf = vec![0u8; self.region as usize];
        let _ = self.file.seek(SeekFrom::Start(WAL_OFF));
        let _ = self.file.read_exact(&mut buf);
        h64(&buf)
    }

    fn state_key(&mut self) -> u64 {
        let st = self.wal.verif_state();
        let mut bytes = Vec::new();
        for v in st {
            bytes.extend_from_slice(&v.to_le_bytes());
        }
        bytes.extend_from_slice(&self.region_hash().to_le_bytes());
        bytes.extend_from_slice(&self.header.wal_sequence.to_le_bytes());
        bytes.extend_from_slice(&self.header.wal_checkpoint_pos.to_le_bytes());
        bytes.extend_from_slice(&self.last_seq.to_le_bytes());
        bytes.extend_from_slice(&(self.pending.len() as u64).to_le_bytes());
        h64(&bytes)
    }

    fn tail_class(&self) -> String {
        let st = self.wal.verif_state();
        let left = self.region - st[0];
        if left < HDR { "tail<48".into() } else if left == HDR { "tail=48".into() } else { "tail>48".into() }
    }

    fn compare(&self, got: &[memvid_core::WalRecord], min_seq_excl: u64, ctx: &str, tail: &str) -> Option<Outcome> {
        let expect: Vec<&(u64, Vec<u8>)> = self.pending.iter().filter(|(s, _)| *s > min_seq_excl).collect();
        let got_seqs: Vec<u64> = got.iter().map(|r| r.sequence).collect();
        let exp_seqs: Vec<u64> = expect.iter().map(|e| e.0).collect();
        if got_seqs != exp_seqs {
            let lost = exp_seqs.iter().any(|s| !got_seqs.contains(s));
            let resurrected = got_seqs.iter().any(|s| *s <= self.ckpt_seq);
            let kind = if resurrected {
                "resurrected-checkpointed"
            } else if lost {
                "lost-pending"
            } else {
                "order-or-extra"
            };
            return Some(Outcome {
                key: format!("C05:{kind}:{ctx}:{tail}"),
                what: format!("{ctx}: scan returned sequences {got_seqs:?}, model expects {exp_seqs:?} (checkpoint {})", self.ckpt_seq),
            });
        }
        for (g, e) in got.iter().zip(expect.iter()) {
            if g.payload != e.1 {
                return Some(Outcome {
                    key: format!("C05:payload-differs:{ctx}:{tail}"),
                    what: format!("{ctx}: record {} payload differs from what was appended", g.sequence),
                });
            }
        }
        None
    }

    /// Apply one op to the real log and the model; `Some` = violation.
    fn step(&mut self, op: &Op, rep: &mut Report) -> Option<Outcome> {
        let tail_before = self.tail_class();
        match op {
            Op::Append(len) => {
                let payload = payload_for(self.last_seq + 1, *len);
                match self.wal.append_entry(&payload) {
                    Ok(seq) => {
                        rep.count("append_ok");
                        if seq != self.last_seq + 1 {
                            return Some(Outcome {
                                key: "C05:sequence-not-consecutive".into(),
                                what: format!("append returned sequence {seq}, previous was {}", self.last_seq),
                            });
                        }
                        self.last_seq = seq;
                        self.pending.push((seq, payload));
                        None
                    }
                    Err(MemvidError::CheckpointFailed { reason })
                        if reason.contains("full") || reason.contains("too small") =>
                    {
                        rep.count("append_rejected_full");
                        None
                    }
                    Err(e) => Some(Outcome {
                        key: "C05:append-unexpected-error".into(),
                        what: format!("append of {len} bytes failed with {e}"),
                    }),
                }
            }
            Op::Checkpoint => {
                if let Err(e) = self.wal.record_checkpoint(&mut self.header) {
                    return Some(Outcome { key: "C05:checkpoint-error".into(), what: e.to_string() });
                }
                rep.count("checkpoints");
                self.ckpt_seq = self.last_seq;
                self.pending.clear();
                None
            }
            Op::Stats => {
                let st = self.wal.stats();
                rep.count("stats_calls");
                if st.region_size != self.region {
                    return Some(Outcome { key: "C05:stats-region".into(), what: format!("stats.region_size {} != {}", st.region_size, self.region) });
                }
                None
            }
            Op::Pending => match self.wal.pending_records() {
                Ok(got) => {
                    rep.count("scans");
                    if !self.pending.is_empty() { rep.count("scans_with_pending"); }
                    self.compare(&got, self.ckpt_seq, "pending_records", &tail_before)
                }
                Err(e) => Some(Outcome {
                    key: format!("C05:scan-error:pending_records:{tail_before}"),
                    what: format!("pending_records failed: {e}"),
                }),
            },
            Op::After(k) => {
                let from = (self.ckpt_seq + *k as u64).min(self.last_seq);
                match self.wal.records_after(from) {
                    Ok(got) => {
                        rep.count("scans");
                        self.compare(&got, from, "records_after", &tail_before)
                    }
                    Err(e) => Some(Outcome {
                        key: format!("C05:scan-error:records_after:{tail_before}"),
                        what: format!("records_after({from}) failed: {e}"),
                    }),
                }
            }
            Op::Reopen => match EmbeddedWal::open(&self.file, &self.header) {
                Ok(w) => {
                    self.wal = w;
                    rep.count("reopens");
                    match self.wal.pending_records() {
                        Ok(got) => self.compare(&got, self.ckpt_seq, "reopen", &tail_before),
                        Err(e) => Some(Outcome { key: format!("C05:scan-error:reopen:{tail_before}"), what: e.to_string() }),
                    }
                }
                Err(e) => Some(Outcome { key: format!("C05:reopen-error:{tail_before}"), what: format!("reopen from header failed: {e}") }),
            },
            Op::ReopenRo => match EmbeddedWal::open_read_only(&self.file, &self.header) {
                Ok(mut ro) => {
                    rep.count("reopens_ro");
                    match ro.pending_records() {
                        Ok(got) => self.compare(&got, self.ckpt_seq, "reopen_ro", &tail_before),
                        Err(e) => Some(Outcome { key: format!("C05:scan-error:reopen_ro:{tail_before}"), what: e.to_string() }),
                    }
                }
                Err(e) => Some(Outcome { key: format!("C05:reopen-error:ro:{tail_before}"), what: e.to_string() }),
            },
        }
    }

    /// Append sizes worth trying from the current state (boundary set relative to head).
    fn boundary_sizes(&self) -> Vec<u32> {
        let st = self.wal.verif_state();
        let head = st[0];
        let left = self.region - head;
        let mut sizes: Vec<i64> = vec![1, 2, 20];
        for gap in [0i64, 1, 47, 48, 49, 96] {
            // payload that leaves exactly `gap` bytes after the record
            sizes.push(left as i64 - HDR as i64 - gap);
        }
        sizes.push(self.region as i64 - HDR as i64); // fills the whole region
        sizes.push(self.region as i64 - HDR as i64 + 1); // too large
        sizes.push((self.region as i64 - HDR as i64) / 2);
        let mut out: Vec<u32> = sizes
            .into_iter()
            .filter(|s| *s >= 1 && *s <= self.region as i64)
            .map(|s| s as u32)
            .collect();
        out.sort_unstable();
        out.dedup();
        out
    }
}

fn run_path(dir: &std::path::Path, region: u64, path: &[Op], rep: &mut Report, tag: u64) -> Result<(Sut, Option<(usize, Outcome)>), String> {
    let mut sut = Sut::create(dir, region, tag).map_err(|e| e.to_string())?;
    for (i, op) in path.iter().enumerate() {
        if let Some(out) = sut.step(op, rep) {
            return Ok((sut, Some((i, out))));
        }
    }
    Ok((sut, None))
}

/// Diagnose where a history first goes wrong: replay it on a fresh file and, after every
/// operation, scan through a side-effect-free read-only handle. The key names the operation kind
/// that made the records disappear and the state it started from — not the random sizes.
fn refine_key(dir: &std::path::Path, region: u64, path: &[Op], coarse: &str) -> String {
    let kind = coarse.split(':').nth(1).unwrap_or("violation").to_string();
    let Ok(mut sut) = Sut::create(dir, region, 9_999_999) else { return coarse.to_string() };
    let mut scratch = Report::default();
    for op in path {
        let tail = sut.tail_class();
        let head_before = sut.wal.verif_state()[0];
        let pend = if sut.pending.is_empty() { "no-pending" } else { "pending" };
        let opname = match op {
            Op::Append(_) => "append",
            Op::Checkpoint => "checkpoint",
            Op::Pending => "pending_records",
            Op::Stats => "stats",
            Op::After(_) => "records_after",
            Op::Reopen => "reopen",
            Op::ReopenRo => "reopen_read_only",
        };
        let stepped = sut.step(op, &mut scratch);
        let ro_ok = match EmbeddedWal::open_read_only(&sut.file, &sut.header).and_then(|mut ro| ro.pending_records()) {
            Ok(got) => sut.compare(&got, sut.ckpt_seq, "ro", "").is_none(),
            Err(_) => false,
        };
        if stepped.is_some() || !ro_ok {
            // for an append: where the new record ends relative to the region end decides whether
            // the end-of-log sentinel fits behind it
            if let Op::Append(len) = op {
                let size = HDR + u64::from(*len);
                // a record that does not fit behind the head is written at the region start
                let end = if head_before + size <= region { head_before + size } else { size };
                let room = if end <= region { region - end } else { u64::MAX };
                let cls = if room == u64::MAX { "record-larger-than-region" } else if room < HDR { "record-ends-0..47-before-region-end" } else { "record-ends->=48-before-region-end" };
                return format!("C05:{kind}:after=append:{cls}");
            }
            return format!("C05:{kind}:after={opname}:{tail}:{pend}");
        }
    }
    format!("C05:{kind}:not-reproduced-by-read-only-scan")
}

fn path_json(region: u64, path: &[Op]) -> Value {
    json!({"region": region, "ops": path.iter().map(Op::to_json).collect::<Vec<_>>()})
}

/// Systematic exploration: BFS over op sequences up to `depth`, de-duplicated on full state.
pub fn systematic(rep: &mut Report, dir: &std::path::Path, regions: &[u64], depth: usize, max_states: usize) {
    let mut tag = 0u64;
    let mut truncated = false;
    for &region in regions {
        let mut seen: HashSet<u64> = HashSet::new();
        let mut frontier: Vec<Vec<Op>> = vec![vec![]];
        let mut violating_states: HashSet<String> = HashSet::new();
        for level in 0..depth {
            let mut next: Vec<Vec<Op>> = Vec::new();
            for path in &frontier {
                // re-reach the state
                tag += 1;
                let mut scratch = Report::default();
                let (sut, bad) = match run_path(dir, region, path, &mut scratch, tag) {
                    Ok(v) => v,
                    Err(e) => {
                        rep.inconclusive(json!({"reason": e}));
                        continue;
                    }
                };
                if bad.is_some() {
                    continue;
                }
                let mut alphabet: Vec<Op> = sut.boundary_sizes().into_iter().map(Op::Append).collect();
                alphabet.extend([Op::Checkpoint, Op::Pending, Op::After(1), Op::Reopen, Op::ReopenRo, Op::Stats]);
                drop(sut);
                for op in alphabet {
                    let mut p = path.clone();
                    p.push(op);
                    // every path ends with an implicit scan so that a loss cannot hide
                    let mut full = p.clone();
                    full.push(Op::Pending);
                    tag += 1;
                    rep.eval();
                    let (mut sut, bad) = match run_path(dir, region, &full, rep, tag) {
                        Ok(v) => v,
                        Err(e) => {
                            rep.inconclusive(json!({"reason": e}));
                            continue;
                        }
                    };
                    if let Some((at, out)) = bad {
                        let key = refine_key(dir, region, &full[..=at], &out.key);
                        violating_states.insert(key.clone());
                        rep.violation(
                            &key,
                            out.what.clone(),
                            json!({"mode": "wal", "history": path_json(region, &full[..=at]), "failed_at_op": at, "wal_state": sut.wal.verif_state()}),
                        );
                        continue;
                    }
                    let key = sut.state_key();
                    if seen.insert(key) {
                        rep.nontrivial(h64(&[key.to_le_bytes(), region.to_le_bytes()].concat()));
                        if level + 1 < depth {
                            if seen.len() < max_states {
                                next.push(p.clone());
                            } else {
                                truncated = true;
                            }
                        }
                        if seen.len() % 997 == 1 {
                            rep.sample(path_json(region, &full));
                        }
                    }
                }
            }
            rep.max(&format!("region{region}_depth_reached"), (level + 1) as u64);
            frontier = next;
            if frontier.is_empty() {
                break;
            }
        }
        rep.add("distinct_states", seen.len() as u64);
    }
    rep.add("systematic_truncated", truncated as u64);
}

/// Random long histories over a realistic region.
pub fn random(rep: &mut Report, dir: &std::path::Path, rng: &mut Rng, region: u64, histories: usize, ops: usize) {
    for h in 0..histories {
        let mut sut = match Sut::create(dir, region, 1_000_000 + h as u64) {
            Ok(s) => s,
            Err(e) => {
                rep.inconclusive(json!({"reason": e.to_string()}));
                continue;
            }
        };
        let mut hist: Vec<Op> = Vec::new();
        let mut tails: BTreeMap<String, u64> = BTreeMap::new();
        let mut failed = false;
        for _ in 0..ops {
            let roll = rng.below(100);
            let op = if roll < 55 {
                let st = sut.wal.verif_state();
                let left = (region - st[0]) as i64;
                let size = match rng.below(10) {
                    0 => left - 48 - rng.range(0, 60),
                    5 => left - 48 - rng.range(0, 47),
                    1 => left - 48,
                    2 => left - 96,
                    3 => rng.range(1, (region as i64 / 3).max(2)),
                    4 => rng.range(region as i64 / 8, region as i64 / 2),
                    _ => rng.range(1, 2000.min(region as i64 - 48)),
                };
                Op::Append(size.clamp(1, region as i64) as u32)
            } else if roll < 70 {
                Op::Checkpoint
            } else if roll < 82 {
                Op::Pending
            } else if roll < 88 {
                Op::After(rng.below(3) as u8)
            } else if roll < 94 {
                Op::Reopen
            } else if roll < 97 {
                Op::ReopenRo
            } else {
                Op::Stats
            };
            hist.push(op.clone());
            rep.eval();
            *tails.entry(sut.tail_class()).or_insert(0) += 1;
            if let Some(out) = sut.step(&op, rep) {
                let key = refine_key(dir, region, &hist, &out.key);
                rep.violation(
                    &key,
                    out.what,
                    json!({"mode": "wal", "history": path_json(region, &hist), "failed_at_op": hist.len() - 1, "wal_state": sut.wal.verif_state()}),
                );
                failed = true;
                break;
            }
            let key = sut.state_key();
            rep.nontrivial(key);
        }
        // final scan
        hist.push(Op::Pending);
        if failed {
            // already reported
        } else if let Some(out) = sut.step(&Op::Pending, rep) {
            let key = refine_key(dir, region, &hist, &out.key);
            rep.violation(
                &key,
                out.what,
                json!({"mode": "wal", "history": path_json(region, &hist), "failed_at_op": hist.len() - 1}),
            );
        }
        for (k, v) in tails {
            rep.add(&format!("ops_at_{k}"), v);
        }
        if h == 0 {
            let short: Vec<Op> = hist.iter().take(12).cloned().collect();
            rep.sample(path_json(region, &short));
        }
    }
}

/// Replay a recorded history; returns the violation if it reproduces.
pub fn replay(rep: &mut Report, dir: &std::path::Path, history: &Value) {
    let region = history.get("region").and_then(Value::as_u64).unwrap_or(200);
    let ops: Vec<Op> = history
        .get("ops")
        .and_then(Value::as_array)
        .map(|a| a.iter().filter_map(Op::from_json).collect())
        .unwrap_or_default();
    rep.eval();
    match run_path(dir, region, &ops, rep, 42) {
        Ok((mut sut, Some((at, out)))) => rep.violation(&refine_key(dir, region, &ops[..=at], &out.key), out.what, json!({"mode":"wal","history": path_json(region, &ops), "failed_at_op": at, "wal_state": sut.wal.verif_state(), "region_hash": sut.region_hash()})),
        Ok(_) => {}
        Err(e) => rep.inconclusive(json!({"reason": e})),
    }
}
