//! C32 — query language totality and semantics against an independent reference evaluator.
//! The reference AST/evaluator is also used by the search monitors (C10, C28).

use std::collections::BTreeMap;
use std::panic::{AssertUnwindSafe, catch_unwind};

use memvid_core::MemvidError;
use memvid_core::types::Frame;
use memvid_core::verif_hooks;
use serde_json::json;

use crate::{Report, Rng, h64};

#[derive(Clone, Debug)]
pub enum Q {
    Word(String),
    Phrase(String),
    Uri(String),
    Scope(String),
    Track(String),
    Tag(String),
    Label(String),
    Date(Option<i64>, Option<i64>, String, String),
    Not(Box<Q>),
    And(Vec<Q>, bool), // bool: explicit "AND" keyword
    Or(Vec<Q>),
}

impl Q {
    /// precedence: Or=1, And=2, Not=3, atom=4
    fn prec(&self) -> u8 {
        match self {
            Q::Or(_) => 1,
            Q::And(..) => 2,
            Q::Not(_) => 3,
            _ => 4,
        }
    }
    fn wrap(&self, min: u8, redundant: bool) -> String {
        let s = self.print_inner(redundant);
        if self.prec() < min || (redundant && self.prec() < 4) {
            format!("({s})")
        } else {
            s
        }
    }
    fn print_inner(&self, redundant: bool) -> String {
        match self {
            Q::Word(w) => w.clone(),
            Q::Phrase(p) => format!("\"{p}\""),
            Q::Uri(v) => format!("uri:{v}"),
            Q::Scope(v) => format!("scope:{v}"),
            Q::Track(v) => format!("track:{v}"),
            Q::Tag(v) => format!("tag:{v}"),
            Q::Label(v) => format!("label:{v}"),
            Q::Date(_, _, a, b) => format!("date:[{a} TO {b}]"),
            Q::Not(inner) => format!("NOT {}", inner.wrap(3, redundant)),
            // children of AND must bind tighter than AND (a nested And is flattened by the grammar,
            // which is semantically the same); children of OR tighter than OR
            Q::And(xs, explicit) => xs
                .iter()
                .map(|x| x.wrap(3, redundant))
                .collect::<Vec<_>>()
                .join(if *explicit { " AND " } else { " " }),
            Q::Or(xs) => xs.iter().map(|x| x.wrap(2, redundant)).collect::<Vec<_>>().join(" OR "),
        }
    }
    /// Minimal-parentheses rendering: exercises precedence.
    pub fn print(&self) -> String {
        self.print_inner(false)
    }
    /// Fully parenthesised rendering.
    pub fn print_paren(&self) -> String {
        self.print_inner(true)
    }

    pub fn has_field_terms(&self) -> bool {
        match self {
            Q::Word(_) | Q::Phrase(_) => false,
            Q::Not(x) => x.has_field_terms(),
            Q::And(xs, _) | Q::Or(xs) => xs.iter().any(Q::has_field_terms),
            _ => true,
        }
    }

    pub fn words(&self, out: &mut Vec<String>) {
        match self {
            Q::Word(w) | Q::Phrase(w) => out.push(w.clone()),
            Q::Not(x) => x.words(out),
            Q::And(xs, _) | Q::Or(xs) => xs.iter().for_each(|x| x.words(out)),
            _ => {}
        }
    }
}

/// What the reference evaluator sees of a frame.
pub struct DocView<'a> {
    pub content_lower: &'a str,
    pub uri: Option<&'a str>,
    pub track: Option<&'a str>,
    pub tags: &'a [String],
    pub labels: &'a [String],
    pub timestamps: Vec<i64>,
}

impl<'a> DocView<'a> {
    pub fn of(frame: &'a Frame, content_lower: &'a str) -> Self {
        DocView {
            content_lower,
            uri: frame.uri.as_deref(),
            track: frame.track.as_deref(),
            tags: &frame.tags,
            labels: &frame.labels,
            timestamps: vec![frame.timestamp],
        }
    }
}

/// Reference boolean semantics per the property text: substring word/phrase matching,
/// case-insensitive field terms (uri: equality, scope: prefix, track/tag/label: equality).
pub fn reference_eval(q: &Q, d: &DocView<'_>) -> bool {
    let ci_eq = |a: &str, b: &str| a.to_lowercase() == b.to_lowercase();
    match q {
        Q::Word(w) | Q::Phrase(w) => d.content_lower.contains(&w.to_lowercase()),
        Q::Uri(v) => d.uri.is_some_and(|u| ci_eq(u, v)),
        Q::Scope(v) => d.uri.is_some_and(|u| u.to_lowercase().starts_with(&v.to_lowercase())),
        Q::Track(v) => d.track.is_some_and(|t| ci_eq(t, v)),
        Q::Tag(v) => d.tags.iter().any(|t| ci_eq(t, v)),
        Q::Label(v) => d.labels.iter().any(|t| ci_eq(t, v)),
        Q::Date(lo, hi, _, _) => d
            .timestamps
            .iter()
            .any(|ts| lo.is_none_or(|l| *ts >= l) && hi.is_none_or(|h| *ts <= h)),
        Q::Not(x) => !reference_eval(x, d),
        Q::And(xs, _) => xs.iter().all(|x| reference_eval(x, d)),
        Q::Or(xs) => xs.iter().any(|x| reference_eval(x, d)),
    }
}

pub const VOCAB: &[&str] = &[
    "zorvex", "quillon", "brimtal", "dask", "ferrox", "lumen", "novak", "ostrel", "pyxis", "rundle",
    "w17x", "k9", "tavrin", "ulmex", "vexil", "yarrow",
];
/// Words that begin or end with a non-ASCII letter (used by the pure parser/evaluator monitor only: the corpora of the
/// search monitors stay with `VOCAB`, which every Tantivy analyzer leaves alone).
pub const VOCAB_UNICODE: &[&str] = &["日本", "café", "über", "naïve", "élan", "señor", "зима"];
pub const SCOPES: &[&str] = &["mv2://docs/", "mv2://Notes/", "mv2://docs/Sub/", "file:///x/"];
pub const TRACKS: &[&str] = &["main", "Side", "LOG"];
pub const TAGS: &[&str] = &["red", "Blue", "GREEN", "x1"];
pub const LABELS: &[&str] = &["inbox", "Work", "ARCHIVE"];

fn ymd(ts: i64) -> String {
    // days since epoch → civil date (Howard Hinnant's algorithm)
    let z = ts.div_euclid(86_400) + 719_468;
    let era = z.div_euclid(146_097);
    let doe = z.rem_euclid(146_097);
    let yoe = (doe - doe / 1460 + doe / 36_524 - doe / 146_096) / 365;
    let y = yoe + era * 400;
    let doy = doe - (365 * yoe + yoe / 4 - yoe / 100);
    let mp = (5 * doy + 2) / 153;
    let d = doy - (153 * mp + 2) / 5 + 1;
    let m = if mp < 10 { mp + 3 } else { mp - 9 };
    let y = if m <= 2 { y + 1 } else { y };
    format!("{y:04}-{m:02}-{d:02}")
}

fn mangled_pick(rng: &mut Rng, items: &[&str]) -> String {
    let s = rng.pick(items);
    case_mangle(rng, s)
}

/// Changes the case of ASCII letters only: the property says "case-insensitive field terms" without naming a folding, the crate
/// folds ASCII, and a reference that demanded Unicode folding would ask for more than is stated.
fn case_mangle(rng: &mut Rng, s: &str) -> String {
    match rng.below(3) {
        0 => s.to_string(),
        1 => s.to_ascii_uppercase(),
        _ => s.to_ascii_lowercase(),
    }
}

pub fn rand_atom(rng: &mut Rng, uris: &[String], with_fields: bool) -> Q {
    let roll = if with_fields { rng.below(100) } else { rng.below(60) };
    if roll < 45 {
        Q::Word(mangled_pick(rng, VOCAB))
    } else if roll < 60 {
        let a = rng.pick(VOCAB);
        let b = rng.pick(VOCAB);
        Q::Phrase(case_mangle(rng, &format!("{a} {b}")))
    } else if roll < 67 {
        let u = if uris.is_empty() { "mv2://docs/a".to_string() } else { rng.pick_ref(uris).clone() };
        Q::Uri(case_mangle(rng, &u))
    } else if roll < 75 {
        if uris.is_empty() || rng.chance(1, 2) {
            Q::Scope(mangled_pick(rng, SCOPES))
        } else {
            // a prefix of one of the documents' URIs cut at a random character, sometimes followed by one or two other
            // letters: its byte length then falls anywhere inside the (possibly multi-byte) URIs it is compared with
            let u = rng.pick_ref(uris);
            let n = u.chars().count();
            let k = rng.usize(1, n);
            let mut v: String = u.chars().take(k).collect();
            for _ in 0..rng.below(3) { v.push(rng.pick(&['a', 'z', 'x'])); }
            Q::Scope(v)
        }
    } else if roll < 81 {
        Q::Track(mangled_pick(rng, TRACKS))
    } else if roll < 88 {
        Q::Tag(mangled_pick(rng, TAGS))
    } else if roll < 94 {
        Q::Label(mangled_pick(rng, LABELS))
    } else {
        // date range on whole days, 2023..2025
        let base = 1_672_531_200i64; // 2023-01-01
        let a = base + rng.range(0, 1000) * 86_400;
        let b = a + rng.range(0, 400) * 86_400;
        match rng.below(4) {
            0 => Q::Date(None, Some(b), "*".into(), ymd(b)),
            1 => Q::Date(Some(a), None, ymd(a), "*".into()),
            _ => Q::Date(Some(a), Some(b), ymd(a), ymd(b)),
        }
    }
}

pub fn rand_query(rng: &mut Rng, depth: u32, uris: &[String], with_fields: bool) -> Q {
    if depth == 0 || rng.chance(2, 5) {
        return rand_atom(rng, uris, with_fields);
    }
    match rng.below(10) {
        0..=1 => Q::Not(Box::new(rand_query(rng, depth - 1, uris, with_fields))),
        2..=5 => {
            let n = rng.usize(2, 3);
            Q::And((0..n).map(|_| rand_query(rng, depth - 1, uris, with_fields)).collect(), rng.chance(1, 2))
        }
        _ => {
            let n = rng.usize(2, 3);
            Q::Or((0..n).map(|_| rand_query(rng, depth - 1, uris, with_fields)).collect())
        }
    }
}

pub fn blank_frame(id: u64) -> Frame {
    Frame {
        id,
        timestamp: 0,
        anchor_ts: None,
        anchor_source: None,
        kind: None,
        track: None,
        payload_offset: 0,
        payload_length: 0,
        checksum: [0; 32],
        uri: None,
        title: None,
        canonical_encoding: Default::default(),
        canonical_length: None,
        metadata: None,
        search_text: None,
        tags: vec![],
        labels: vec![],
        extra_metadata: BTreeMap::new(),
        content_dates: vec![],
        chunk_manifest: None,
        role: Default::default(),
        parent_id: None,
        chunk_index: None,
        chunk_count: None,
        status: Default::default(),
        supersedes: None,
        superseded_by: None,
        source_sha256: None,
        source_path: None,
        enrichment_state: Default::default(),
    }
}

/// Replace about half of the plain words of a query by words that begin or end with a non-ASCII letter.
fn unicodify(q: &mut Q, rng: &mut Rng) {
    match q {
        Q::Word(w) => { if rng.chance(1, 2) { let pick = rng.pick(VOCAB_UNICODE); *w = case_mangle(rng, pick); } }
        Q::Not(x) => unicodify(x, rng),
        Q::And(xs, _) | Q::Or(xs) => xs.iter_mut().for_each(|x| unicodify(x, rng)),
        _ => {}
    }
}

fn rand_doc_frame_unicode(rng: &mut Rng, uris: &[String]) -> (Frame, String) {
    let (f, mut content) = rand_doc_frame(rng, uris);
    for _ in 0..rng.below(4) {
        content.push(' ');
        content.push_str(rng.pick(VOCAB_UNICODE));
    }
    (f, content.to_lowercase())
}

fn rand_doc_frame(rng: &mut Rng, uris: &[String]) -> (Frame, String) {
    let mut f = blank_frame(rng.below(100));
    f.uri = if rng.chance(9, 10) { Some(rng.pick_ref(uris).clone()) } else { None };
    f.track = if rng.chance(1, 2) { Some(rng.pick(TRACKS).to_string()) } else { None };
    f.tags = (0..rng.below(3)).map(|_| rng.pick(TAGS).to_string()).collect();
    f.labels = (0..rng.below(3)).map(|_| rng.pick(LABELS).to_string()).collect();
    f.timestamp = 1_672_531_200 + rng.range(-100, 1500) * 86_400 + rng.range(0, 86_399);
    let n = rng.usize(0, 12);
    let content: Vec<&str> = (0..n).map(|_| rng.pick(VOCAB)).collect();
    (f, content.join(" ").to_lowercase())
}

pub fn doc_uris(rng: &mut Rng) -> Vec<String> {
    (0..6)
        .map(|i| format!("{}{}{}", rng.pick(SCOPES), rng.pick(&["Alpha", "beta", "GAMMA", "été", "naïve", "漢字"]), i))
        .collect()
}

pub fn c32(rep: &mut Report, rng: &mut Rng, cases: u64) {
    rep.require("parse_ok");
    rep.require("parse_invalid_query");
    rep.require("semantic_checks");
    rep.require("semantic_true");
    rep.require("semantic_false");
    let alphabet = ["(", ")", "\"", "AND", "OR", "NOT", "and", "or", "not", "uri:", "scope:", "date:[", "]", "TO", "tag:\"", "foo", "bar:baz", "*", "?", "-", ":", " ", "  ", "é", "label:", "track:x", "2024-01-01", "[", "date:", "date:[2024 TO *]", "\u{0}"];
    for case in 0..cases {
        rep.eval();
        // (a) totality on random token soup
        let n = rng.usize(0, 12);
        let s: String = (0..n).map(|_| format!("{}{}", rng.pick(&alphabet), if rng.chance(1, 2) { " " } else { "" })).collect();
        match catch_unwind(AssertUnwindSafe(|| verif_hooks::parse_query_debug(&s))) {
            Err(_) => rep.violation("C32:parse-panic", "parse_query panicked".into(), json!({"mode":"c32parse","query": s})),
            Ok(Ok(_)) => rep.count("parse_ok"),
            Ok(Err(MemvidError::InvalidQuery { .. })) => rep.count("parse_invalid_query"),
            Ok(Err(e)) => rep.violation("C32:parse-wrong-error-kind", format!("parse returned {e:?}, not InvalidQuery"), json!({"mode":"c32parse","query": s})),
        }
        // (b) semantics
        let uris = doc_uris(rng);
        let mut q = rand_query(rng, 3, &uris, true);
        // a third of the cases use words with non-ASCII first / last letters, in the query and in the documents
        let unicode_words = rng.chance(1, 3);
        if unicode_words { unicodify(&mut q, rng); rep.count("cases_with_non_ascii_words"); }
        let text = if rng.chance(1, 3) { q.print_paren() } else { q.print() };
        for _ in 0..3 {
            let (frame, content) = if unicode_words { rand_doc_frame_unicode(rng, &uris) } else { rand_doc_frame(rng, &uris) };
            let expect = reference_eval(&q, &DocView::of(&frame, &content));
            rep.count("semantic_checks");
            rep.count(if expect { "semantic_true" } else { "semantic_false" });
            match catch_unwind(AssertUnwindSafe(|| verif_hooks::parse_and_evaluate(&text, &frame, &content))) {
                Err(_) => rep.violation("C32:evaluate-panic", "parse/evaluate panicked".into(), json!({"mode":"c32sem","query": text})),
                Ok(Err(e)) => rep.violation("C32:well-formed-query-rejected", format!("well-formed query rejected: {e}"), json!({"mode":"c32sem","query": text})),
                Ok(Ok(got)) => {
                    if got != expect {
                        // attribute: re-evaluate with each field-term class neutralised to find the culprit
                        let key = attribute(&q, &frame, &content, &text);
                        rep.violation(&key, format!("query {text:?} evaluates to {got}, reference says {expect}"),
                            json!({"mode":"c32sem","query": text, "ast": format!("{q:?}"), "uri": frame.uri, "track": frame.track, "tags": frame.tags, "labels": frame.labels, "timestamp": frame.timestamp, "content": content, "expected": expect, "got": got}));
                    }
                }
            }
        }
        rep.nontrivial(h64(text.as_bytes()));
        if case < 3 { rep.sample(json!({"query": text, "random_string": s})); }
    }
}

/// Find which atom kind disagrees between implementation and reference (for the finding key).
fn attribute(q: &Q, frame: &Frame, content: &str, _text: &str) -> String {
    fn atoms<'a>(q: &'a Q, out: &mut Vec<&'a Q>) {
        match q {
            Q::Not(x) => atoms(x, out),
            Q::And(xs, _) | Q::Or(xs) => xs.iter().for_each(|x| atoms(x, out)),
            a => out.push(a),
        }
    }
    let mut list = Vec::new();
    atoms(q, &mut list);
    for a in list {
        let t = a.print();
        let expect = reference_eval(a, &DocView::of(frame, content));
        if let Ok(got) = verif_hooks::parse_and_evaluate(&t, frame, content) {
            if got != expect {
                let kind = match a {
                    Q::Word(_) => "word",
                    Q::Phrase(_) => "phrase",
                    Q::Uri(_) => "uri",
                    Q::Scope(_) => "scope-case-sensitive",
                    Q::Track(_) => "track",
                    Q::Tag(_) => "tag",
                    Q::Label(_) => "label",
                    Q::Date(..) => "date",
                    _ => "other",
                };
                return format!("C32:semantics:atom:{kind}");
            }
        }
    }
    "C32:semantics:composition".to_string()
}

/// One deep-nesting probe; meant to run in its own process (a stack overflow aborts it).
pub fn deep(kind: &str, depth: usize) -> i32 {
    let q = match kind {
        "paren" => format!("{}x{}", "(".repeat(depth), ")".repeat(depth)),
        "not" => format!("{}x", "NOT ".repeat(depth)),
        "unbalanced" => "(".repeat(depth),
        _ => format!("{}x", "(NOT ".repeat(depth)),
    };
    match verif_hooks::parse_query_debug(&q) {
        Ok(_) => 0,
        Err(MemvidError::InvalidQuery { .. }) => 0,
        Err(_) => 2,
    }
}
