//! C39 sketch term filter / sketch track round-trip, C27(a) memory-card temporal queries.

use std::io::Cursor;

use memvid_core::types::sketch_track::{
    SketchEntry, SketchTrack, SketchVariant, generate_sketch, hash_token, read_sketch_track,
    term_filter_maybe_contains, tokenize_for_sketch, write_sketch_track,
};
use memvid_core::{MemoriesTrack, MemoryCardBuilder};
use serde_json::json;

use super::text::rand_unicode;
use crate::{Report, Rng, h64};

fn rand_words(rng: &mut Rng, n: usize) -> String {
    let syll = ["ka", "zor", "vex", "Qu", "il", "ÉT", "漢字", "ﬁn", "x9", "7", "a", "The", "ß"];
    let mut s = String::new();
    for _ in 0..n {
        for _ in 0..rng.usize(1, 3) {
            s.push_str(rng.pick(&syll));
        }
        s.push_str(rng.pick(&[" ", " ", ", ", ".\n", "-", "_", "'"]));
    }
    s
}

fn entry_eq(a: &SketchEntry, b: &SketchEntry, variant: SketchVariant) -> bool {
    // a text with fewer distinct tokens than top-term slots yields a shorter list; the fixed-size
    // entry pads it with zeros, which is the same sketch
    let pad = |t: &Vec<u32>| { let mut v = t.clone(); v.resize(variant.top_terms_count().max(v.len()), 0); v };
    let core = a.frame_id == b.frame_id && a.simhash == b.simhash && a.term_filter == b.term_filter && pad(&a.top_terms) == pad(&b.top_terms);
    match variant {
        // the 32-byte entry has no room for weight sum / flags / length hint: only what the
        // format stores is compared
        SketchVariant::Small => core,
        _ => core && a.term_weight_sum == b.term_weight_sum && a.flags == b.flags && a.length_hint == b.length_hint,
    }
}

pub fn c39(rep: &mut Report, rng: &mut Rng, cases: u64) {
    rep.require("tokens_checked");
    rep.require("tracks_roundtripped");
    for case in 0..cases {
        rep.eval();
        // (1) term filter has no false negatives
        // one text in eight has more distinct tokens than the filter has bits (128 / 256): a filter that only takes the
        // "most important" terms would then forget some
        let nwords = if rng.chance(1, 8) { rng.usize(200, 900) } else { rng.usize(0, 120) };
        let text = if rng.chance(1, 4) && nwords <= 120 { rand_unicode(rng, 40) } else if nwords > 120 { rep.count("texts_with_many_distinct_tokens"); (0..nwords).map(|i| format!("w{}x{} ", i, rng.below(50))).collect::<String>() } else { rand_words(rng, nwords) };
        let variant = rng.pick(&[SketchVariant::Small, SketchVariant::Small, SketchVariant::Medium]);
        let entry = generate_sketch(case, &text, variant, None);
        let tokens = tokenize_for_sketch(&text);
        for tok in &tokens {
            rep.count("tokens_checked");
            if !term_filter_maybe_contains(&entry.term_filter, hash_token(tok)) {
                rep.violation("C39:term-filter-false-negative", format!("token {tok:?} of the text is reported absent"), json!({"mode":"c39filter","text": text, "token": tok, "variant": format!("{variant:?}")}));
                break;
            }
        }
        if !tokens.is_empty() { rep.nontrivial(h64(&entry.term_filter) ^ entry.simhash); }
        // (2) track round-trip
        if case % 4 == 0 {
            let n = rng.usize(0, 30);
            let shape = rng.below(3); // 0 dense in order, 1 sparse ascending, 2 out of order
            let mut ids: Vec<u64> = match shape {
                0 => (0..n as u64).collect(),
                _ => { let mut v = Vec::new(); let mut cur = 0u64; for _ in 0..n { cur += rng.below(3); v.push(cur); cur += 1; } v }
            };
            if shape == 2 && ids.len() > 1 { ids.reverse(); }
            let dense = ids.iter().enumerate().all(|(i, id)| *id == i as u64);
            let mut track = SketchTrack::new(variant);
            for id in &ids {
                let nw = rng.usize(0, 30);
                let t = rand_words(rng, nw);
                track.insert(generate_sketch(*id, &t, variant, None));
            }
            let prefix = rng.usize(0, 7);
            let mut cur = Cursor::new(vec![0xEEu8; prefix]);
            cur.set_position(prefix as u64);
            let shape_name = if dense { "dense" } else if shape == 1 { "sparse-ids" } else { "out-of-order-ids" };
            match write_sketch_track(&mut cur, &track) {
                Err(e) => rep.violation("C39:track-write-error", e.to_string(), json!({"mode":"c39track","ids": ids})),
                Ok((off, len, _)) => match read_sketch_track(&mut Cursor::new(cur.into_inner()), off, len) {
                    Err(e) => rep.violation(&format!("C39:track-read-error:{shape_name}"), e.to_string(), json!({"mode":"c39track","ids": ids, "variant": format!("{variant:?}")})),
                    Ok(back) => {
                        rep.count("tracks_roundtripped");
                        rep.count(&format!("tracks_{shape_name}"));
                        let a: Vec<&SketchEntry> = track.iter().collect();
                        let b: Vec<&SketchEntry> = back.iter().collect();
                        let same = a.len() == b.len() && a.iter().zip(b.iter()).all(|(x, y)| entry_eq(x, y, variant))
                            && ids.iter().all(|id| match (track.get(*id), back.get(*id)) { (Some(x), Some(y)) => entry_eq(x, y, variant), _ => false });
                        if !same {
                            let ids_back: Vec<u64> = b.iter().map(|e| e.frame_id).collect();
                            let why = if ids_back != ids { "frame-ids-renumbered" } else { "entry-content" };
                            rep.violation(&format!("C39:track-roundtrip-differs:{why}:{shape_name}"), format!("written ids {ids:?}, read back {ids_back:?}"), json!({"mode":"c39track","ids": ids, "variant": format!("{variant:?}")}));
                        }
                    }
                },
            }
        }
        if case < 2 { rep.sample(json!({"text_head": text.chars().take(60).collect::<String>(), "tokens": tokens.len(), "variant": format!("{variant:?}")})); }
    }
}

pub fn c27a(rep: &mut Report, rng: &mut Rng, cases: u64) {
    rep.require("at_time_some");
    rep.require("at_time_none");
    rep.require("beyond_latest_checks");
    let entities = ["alice", "Bob", "project.x"];
    let slots = ["employer", "city", "likes"];
    for case in 0..cases {
        rep.eval();
        let mut track = MemoriesTrack::new();
        let n = rng.usize(0, 14);
        let mut shadow: Vec<(String, String, i64, bool, u64)> = Vec::new(); // entity, slot, effective ts, retraction, id
        for i in 0..n {
            let e = rng.pick(&entities);
            let s = rng.pick(&slots);
            let mut b = MemoryCardBuilder::new().fact().entity(e).slot(s).value(format!("v{i}")).source(i as u64, None).engine("t", "1");
            let created = 1000 + rng.range(-5, 5);
            let ev = if rng.chance(1, 2) { Some(rng.range(-10, 10) * 100) } else { None };
            let doc = if rng.chance(1, 2) { Some(rng.range(-10, 10) * 100) } else { None };
            if let Some(t) = ev { b = b.event_date(t); }
            if let Some(t) = doc { b = b.document_date(t); }
            let retract = rng.chance(1, 5);
            b = match rng.below(4) { _ if retract => b.retracts(), 0 => b.updates(), 1 => b.extends(), _ => b };
            let Ok(mut card) = b.build(0) else { continue };
            card.created_at = created;
            let eff = ev.or(doc).unwrap_or(created);
            let id = track.add_card(card);
            shadow.push((e.to_string(), s.to_string(), eff, retract, id));
        }
        // through serialization as well: the query must not depend on in-memory-only state
        let track = if rng.chance(1, 2) {
            match track.serialize().and_then(|b| MemoriesTrack::deserialize(&b)) {
                Ok(t) => { rep.count("queried_after_deserialize"); t }
                Err(e) => { rep.violation("C27:serialize-roundtrip-error", e.to_string(), json!({"mode":"c27a"})); continue; }
            }
        } else { track };
        for _ in 0..6 {
            let e = rng.pick(&entities);
            let s = rng.pick(&slots);
            let t = rng.range(-12, 12) * 100 + rng.range(-1, 1);
            let got = track.get_at_time(e, s, t);
            let eligible: Vec<&(String, String, i64, bool, u64)> = shadow.iter().filter(|c| c.0 == e && c.1 == s && c.2 <= t && !c.3).collect();
            let all_le_t: Vec<&(String, String, i64, bool, u64)> = shadow.iter().filter(|c| c.0 == e && c.1 == s && c.2 <= t).collect();
            let detail = json!({"mode":"c27a","cards": shadow.iter().map(|c| json!({"entity":c.0,"slot":c.1,"effective":c.2,"retraction":c.3,"id":c.4})).collect::<Vec<_>>(), "entity": e, "slot": s, "t": t});
            match got {
                Some(card) => {
                    rep.count("at_time_some");
                    if card.effective_timestamp() > t {
                        rep.violation("C27:at-time-returns-future-card", format!("card effective at {} returned for t={t}", card.effective_timestamp()), detail.clone());
                    }
                    if card.is_retracted() {
                        rep.violation("C27:at-time-returns-retraction", "a retraction card was returned".into(), detail.clone());
                    }
                    if !eligible.iter().any(|c| c.4 == card.id) {
                        rep.violation("C27:at-time-returns-foreign-card", "returned card is not a non-retracted card of this entity/slot at or before t".into(), detail.clone());
                    } else if let Some(best) = eligible.iter().map(|c| c.2).max() {
                        // reference: the newest eligible effective time (ties are not ordered)
                        if card.effective_timestamp() != best {
                            rep.violation("C27:at-time-not-latest", format!("returned effective time {}, newest eligible is {best}", card.effective_timestamp()), detail.clone());
                        }
                    }
                }
                None => {
                    rep.count("at_time_none");
                    if !eligible.is_empty() {
                        rep.violation("C27:at-time-missed-card", "None returned although an eligible card exists".into(), detail.clone());
                    }
                }
            }
            let _ = all_le_t;
            // t at or beyond the latest card == get_current
            let latest = shadow.iter().filter(|c| c.0 == e && c.1 == s).map(|c| c.2).max();
            if let Some(l) = latest {
                let t2 = l + rng.range(0, 3);
                rep.count("beyond_latest_checks");
                let a = track.get_at_time(e, s, t2).map(|c| c.effective_timestamp());
                let b = track.get_current(e, s).map(|c| c.effective_timestamp());
                let ida = track.get_at_time(e, s, t2).map(|c| c.id);
                let idb = track.get_current(e, s).map(|c| c.id);
                if a != b || (ida != idb && a.is_none() != b.is_none()) {
                    rep.violation("C27:at-time-beyond-latest-differs-from-current", format!("get_at_time(t={t2}) → {ida:?}, get_current → {idb:?}"), detail.clone());
                } else if ida != idb {
                    // same effective time, another card: the property asks for equality with get_current, so the two
                    // queries have to break ties between equally recent cards the same way
                    rep.count("beyond_latest_checks_with_ties");
                    rep.violation("C27:at-time-beyond-latest-differs-from-current:tie-between-equally-recent-cards", format!("get_at_time(t={t2}) → card {ida:?}, get_current → card {idb:?} (same effective time {a:?})"), detail.clone());
                }
            }
        }
        rep.nontrivial(h64(format!("{shadow:?}").as_bytes()));
        if case < 2 { rep.sample(json!({"cards": shadow.len(), "first": shadow.first().map(|c| json!({"entity":c.0,"slot":c.1,"effective":c.2,"retraction":c.3}))})); }
    }
}
