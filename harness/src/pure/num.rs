//! C37 adaptive cut-off bounds, C38 SIMD L2 distance vs scalar f64 reference.

use std::panic::{AssertUnwindSafe, catch_unwind};

use memvid_core::simd::{l2_distance_simd, l2_distance_squared_simd};
use memvid_core::types::adaptive::{AdaptiveConfig, CutoffStrategy, find_adaptive_cutoff, normalize_scores};
use serde_json::json;

use crate::{Report, Rng, h64};

fn rand_score(rng: &mut Rng, extremes: bool) -> f32 {
    match rng.below(12) {
        0 => 0.0,
        1 => 1.0,
        2 => -1.0,
        3 if extremes => 3.0e38,
        4 if extremes => -3.0e38,
        5 => f32::MIN_POSITIVE / 4.0, // subnormal
        6 => rng.f32_unit() * 1000.0,
        _ => rng.f32_unit(),
    }
}

fn rand_strategy(rng: &mut Rng) -> (CutoffStrategy, &'static str) {
    let p = |rng: &mut Rng| match rng.below(6) {
        0 => 0.0,
        1 => 1.0,
        2 => -0.5,
        3 => 2.0,
        _ => rng.f32_unit(),
    };
    match rng.below(5) {
        0 => (CutoffStrategy::AbsoluteThreshold { min_score: p(rng) }, "absolute"),
        1 => (CutoffStrategy::RelativeThreshold { min_ratio: p(rng) }, "relative"),
        2 => (CutoffStrategy::ScoreCliff { max_drop_ratio: p(rng) }, "cliff"),
        3 => (CutoffStrategy::Elbow { sensitivity: p(rng) * 3.0 }, "elbow"),
        _ => (CutoffStrategy::Combined { relative_threshold: p(rng), max_drop_ratio: p(rng), absolute_min: p(rng) }, "combined"),
    }
}

pub fn c37(rep: &mut Report, rng: &mut Rng, cases: u64) {
    rep.require("threshold_cutoffs_inside_list");
    rep.require("normalize_checks");
    for case in 0..cases {
        rep.eval();
        let n = rng.usize(0, 30);
        let extremes = rng.chance(1, 8);
        let mut scores: Vec<f32> = (0..n).map(|_| rand_score(rng, extremes)).collect();
        let sorted = rng.chance(2, 3);
        if sorted {
            scores.sort_by(|a, b| b.partial_cmp(a).unwrap());
        }
        if rng.chance(1, 5) && n > 2 {
            let v = scores[0];
            for s in scores.iter_mut().take(n / 2) { *s = v; }
        }
        let (strategy, sname) = rand_strategy(rng);
        let cfg = AdaptiveConfig {
            enabled: true,
            max_results: rng.usize(0, 40),
            min_results: rng.usize(0, 6),
            strategy: strategy.clone(),
            normalize_scores: rng.chance(1, 2),
        };
        let res = catch_unwind(AssertUnwindSafe(|| find_adaptive_cutoff(&scores, &cfg)));
        let (cutoff, _why) = match res {
            Ok(v) => v,
            Err(_) => {
                rep.violation(&format!("C37:panic:{sname}"), "find_adaptive_cutoff panicked".into(), json!({"mode":"c37","scores": scores, "config": format!("{cfg:?}")}));
                continue;
            }
        };
        let lo = cfg.min_results.min(n);
        if cutoff < lo || cutoff > n {
            rep.violation(&format!("C37:cutoff-out-of-bounds:{sname}"), format!("cutoff {cutoff} not in [{lo}, {n}]"), json!({"mode":"c37","scores": scores, "config": format!("{cfg:?}")}));
        }
        // normalisation
        rep.count("normalize_checks");
        let norm = normalize_scores(&scores);
        let finite_range = scores.iter().copied().fold(f32::NEG_INFINITY, f32::max) - scores.iter().copied().fold(f32::INFINITY, f32::min);
        let cls = if finite_range.is_finite() { "finite-range" } else { "range-overflow" };
        if norm.len() != n {
            rep.violation("C37:normalize:length", "normalize_scores changed the length".into(), json!({"mode":"c37n","scores": scores}));
        } else if n > 0 {
            if norm.iter().any(|v| !(0.0..=1.0).contains(v)) {
                rep.violation(&format!("C37:normalize:outside-unit-interval:{cls}"), format!("normalized scores {norm:?}"), json!({"mode":"c37n","scores": scores}));
            } else {
                let imax = (0..n).max_by(|a, b| scores[*a].partial_cmp(&scores[*b]).unwrap()).unwrap();
                if norm[imax] != 1.0 {
                    rep.violation(&format!("C37:normalize:max-not-one:{cls}"), format!("maximum maps to {}", norm[imax]), json!({"mode":"c37n","scores": scores}));
                }
            }
        }
        // threshold semantics (judged on the list the strategy sees; sorted lists only for relative)
        let seen = if cfg.normalize_scores { norm.clone() } else { scores.clone() };
        let threshold = match strategy {
            CutoffStrategy::AbsoluteThreshold { min_score } => Some(min_score),
            CutoffStrategy::RelativeThreshold { min_ratio } if sorted && !seen.is_empty() => Some(seen[0] * min_ratio),
            _ => None,
        };
        if let Some(t) = threshold {
            if seen.iter().all(|v| v.is_finite()) && t.is_finite() && n > cfg.min_results && cutoff <= n {
                for (i, v) in seen.iter().enumerate().take(cutoff) {
                    if i >= cfg.min_results && *v < t {
                        rep.violation(&format!("C37:kept-below-threshold:{sname}"), format!("score {v} at {i} kept below threshold {t}"), json!({"mode":"c37","scores": scores, "config": format!("{cfg:?}")}));
                        break;
                    }
                }
                if cutoff < n {
                    rep.count("threshold_cutoffs_inside_list");
                    if !(seen[cutoff] < t) {
                        rep.violation(&format!("C37:first-dropped-not-below-threshold:{sname}"), format!("score {} just after the cut-off is not below {t}", seen[cutoff]), json!({"mode":"c37","scores": scores, "config": format!("{cfg:?}")}));
                    }
                }
            }
        }
        rep.nontrivial(h64(format!("{scores:?}{cutoff}{sname}").as_bytes()));
        if case < 3 { rep.sample(json!({"scores": scores, "strategy": format!("{strategy:?}"), "min_results": cfg.min_results, "cutoff": cutoff})); }
    }
}

fn rand_val(rng: &mut Rng, scale: f32) -> f32 {
    let sign = if rng.chance(1, 2) { -1.0 } else { 1.0 };
    sign * match rng.below(12) {
        0 => 0.0,
        1 => f32::MIN_POSITIVE / 8.0,
        2 => scale,
        _ => rng.f32_unit() * scale,
    }
}

/// Vectors of one magnitude class each, so that a dropped or duplicated lane is visible against
/// the tolerance (mixed magnitudes would hide it).
pub fn simd_cases(rng: &mut Rng, cases: u64, mut f: impl FnMut(&[f32], &[f32])) {
    for case in 0..cases {
        let n = if case < 101 { case as usize } else { rng.usize(0, 100) };
        let scale = rng.pick(&[1.0f32, 1.0, 1.0, 1.0e6, 1.0e15, 1.0e-3]);
        let a: Vec<f32> = (0..n).map(|_| rand_val(rng, scale)).collect();
        let b: Vec<f32> = if rng.chance(1, 6) { a.clone() } else { (0..n).map(|_| rand_val(rng, scale)).collect() };
        f(&a, &b);
    }
}

pub fn c38(rep: &mut Report, rng: &mut Rng, cases: u64) {
    rep.require("lengths_covered");
    let mut lens = std::collections::BTreeSet::new();
    let mut digest = blake3::Hasher::new();
    let mut sample_n = 0;
    let simd_on = cfg!(any(feature = "full", feature = "pure-simd"));
    rep.add("simd_feature_on", simd_on as u64);
    let mut viol: Vec<(String, String, serde_json::Value)> = Vec::new();
    let mut evals = 0u64;
    let mut distinct = Vec::new();
    simd_cases(rng, cases, |a, b| {
        evals += 1;
        lens.insert(a.len());
        let d = l2_distance_simd(a, b);
        let d2 = l2_distance_squared_simd(a, b);
        digest.update(&d.to_bits().to_le_bytes());
        let reference: f64 = a.iter().zip(b).map(|(x, y)| { let t = f64::from(*x) - f64::from(*y); t * t }).sum::<f64>().sqrt();
        // tolerance: the f32 subtraction and accumulation each contribute ~eps relative per term
        let tol = reference * 2e-6 * (a.len().max(1) as f64).sqrt().max(1.0) + 1e-18;
        let detail = json!({"mode":"c38","a": a, "b": b, "got": d, "reference": reference});
        if !d.is_finite() || (f64::from(d) - reference).abs() > tol {
            viol.push(("C38:differs-from-scalar".into(), format!("simd {d} vs scalar {reference}"), detail.clone()));
        }
        if (f64::from(d2).sqrt() - reference).abs() > 2.0 * tol {
            viol.push(("C38:squared-differs-from-scalar".into(), format!("simd squared {d2} vs scalar {}", reference * reference), detail.clone()));
        }
        let r = l2_distance_simd(b, a);
        if r.to_bits() != d.to_bits() {
            viol.push(("C38:not-symmetric".into(), format!("d(a,b)={d} d(b,a)={r}"), detail.clone()));
        }
        let z = l2_distance_simd(a, a);
        if z != 0.0 {
            viol.push(("C38:self-distance-nonzero".into(), format!("d(a,a)={z}"), detail));
        }
        distinct.push(h64(&[a.len() as u8, (d.to_bits() & 0xff) as u8, (d.to_bits() >> 8 & 0xff) as u8, (d.to_bits() >> 16 & 0xff) as u8]));
        if sample_n < 2 && a.len() > 8 { sample_n += 1; }
    });
    rep.evaluations += evals;
    for d in distinct { rep.nontrivial(d); }
    for (k, w, d) in viol { rep.violation(&k, w, d); }
    rep.add("lengths_covered", lens.len() as u64);
    rep.sample(json!({"lengths_covered": lens.len(), "max_len": lens.iter().max(), "output_digest": digest.finalize().to_hex()[..16].to_string()}));
    rep.sample(json!({"note": "output_digest is compared between the simd and no-simd builds on the same seed by check (bitwise equality is not required; each build is judged against the f64 reference)"}));
}
