//! File-image probe (engines E2/E3): observe what a `.mv2` image exposes, without trusting it.
//!
//! `mvprobe raw <file>`   decode header / footer / TOC directly (no Memvid), print the layout
//! `mvprobe obs <file>…`  for each image (argv or one path per stdin line): open it the requested
//!                        way in this process under catch_unwind and print one JSON line with the
//!                        logical observation (frames, payload digests, timeline, searches, …)

use std::io::{BufRead, Read};
use std::panic::{AssertUnwindSafe, catch_unwind};
use std::path::Path;

use memvid_core::io::header::HeaderCodec;
use memvid_core::types::{Frame, FrameStatus, SearchRequest, TimelineQuery, Toc};
use memvid_core::{Memvid, find_last_valid_footer};
use serde_json::{Value, json};

use crate::{Args, hex_digest};

pub fn raw_layout(path: &Path) -> Value {
    let bytes = match std::fs::read(path) {
        Ok(b) => b,
        Err(e) => return json!({"error": e.to_string()}),
    };
    let mut out = json!({"len": bytes.len()});
    if bytes.len() < 4096 {
        out["error"] = json!("shorter than header");
        return out;
    }
    let mut hb = [0u8; 4096];
    hb.copy_from_slice(&bytes[..4096]);
    let header = match HeaderCodec::decode(&hb) {
        Ok(h) => h,
        Err(e) => {
            out["error"] = json!(format!("header: {e}"));
            return out;
        }
    };
    out["header"] = json!({"footer_offset": header.footer_offset, "wal_offset": header.wal_offset, "wal_size": header.wal_size,
        "wal_checkpoint_pos": header.wal_checkpoint_pos, "wal_sequence": header.wal_sequence, "toc_checksum": hex::encode(&header.toc_checksum[..8])});
    let Some(fs) = find_last_valid_footer(&bytes) else {
        out["error"] = json!("no valid footer");
        return out;
    };
    out["footer"] = json!({"footer_offset": fs.footer_offset, "toc_offset": fs.toc_offset, "generation": fs.footer.generation, "toc_len": fs.footer.toc_len});
    match Toc::decode(fs.toc_bytes) {
        Ok(toc) => {
            let frames: Vec<Value> = toc.frames.iter().map(|f| json!({"id": f.id, "off": f.payload_offset, "len": f.payload_length, "status": format!("{:?}", f.status), "role": format!("{:?}", f.role), "enc": format!("{:?}", f.canonical_encoding), "parent": f.parent_id, "uri": f.uri})).collect();
            out["frames"] = json!(frames);
            let seg = |o: u64, l: u64| json!([o, l]);
            out["regions"] = json!({
                "time_index": toc.time_index.as_ref().map(|m| seg(m.bytes_offset, m.bytes_length)),
                "lex": toc.indexes.lex.as_ref().map(|m| seg(m.bytes_offset, m.bytes_length)),
                "vec": toc.indexes.vec.as_ref().map(|m| seg(m.bytes_offset, m.bytes_length)),
                "memories": toc.memories_track.as_ref().map(|m| seg(m.bytes_offset, m.bytes_length)),
                "mesh": toc.logic_mesh.as_ref().map(|m| seg(m.bytes_offset, m.bytes_length)),
                "sketch": toc.sketch_track.as_ref().map(|m| seg(m.bytes_offset, m.bytes_length)),
                "tantivy_segments": toc.segment_catalog.tantivy_segments.iter().map(|d| seg(d.common.bytes_offset, d.common.bytes_length)).collect::<Vec<_>>(),
                "lex_segments": toc.indexes.lex_segments.iter().map(|d| seg(d.bytes_offset, d.bytes_length)).collect::<Vec<_>>(),
            });
            out["ticket"] = json!({"seq_no": toc.ticket_ref.seq_no, "capacity": toc.ticket_ref.capacity_bytes, "issuer": toc.ticket_ref.issuer});
        }
        Err(e) => out["error"] = json!(format!("toc: {e}")),
    }
    out
}

fn toc_json(path: &Path) -> Result<Value, String> {
    let bytes = std::fs::read(path).map_err(|e| e.to_string())?;
    let fs = find_last_valid_footer(&bytes).ok_or("no valid footer")?;
    let toc = Toc::decode(fs.toc_bytes).map_err(|e| format!("toc: {e}"))?;
    serde_json::to_value(&toc).map_err(|e| e.to_string())
}

fn diff_paths(a: &Value, b: &Value, path: &str, out: &mut std::collections::BTreeMap<String, (u64, String)>) {
    match (a, b) {
        (Value::Object(x), Value::Object(y)) => {
            let keys: std::collections::BTreeSet<&String> = x.keys().chain(y.keys()).collect();
            for k in keys {
                diff_paths(x.get(k).unwrap_or(&Value::Null), y.get(k).unwrap_or(&Value::Null), &format!("{path}.{k}"), out);
            }
        }
        (Value::Array(x), Value::Array(y)) if x.len() == y.len() && x.iter().any(|v| v.is_object() || v.is_array()) => {
            for (u, v) in x.iter().zip(y) {
                diff_paths(u, v, &format!("{path}[]"), out);
            }
        }
        _ => {
            if a != b {
                let e = out.entry(path.trim_start_matches('.').to_string()).or_insert((0, String::new()));
                e.0 += 1;
                if e.1.is_empty() {
                    let cut = |v: &Value| { let t = v.to_string(); t.chars().take(70).collect::<String>() };
                    e.1 = format!("{} vs {}", cut(a), cut(b));
                }
            }
        }
    }
}

/// Field-level comparison of the TOCs of two files: generalised paths (indices dropped) that differ.
pub fn toc_diff(a: &Path, b: &Path) -> Value {
    match (toc_json(a), toc_json(b)) {
        (Ok(x), Ok(y)) => {
            let mut out = std::collections::BTreeMap::new();
            diff_paths(&x, &y, "", &mut out);
            json!({"differing_fields": out.iter().map(|(k, (n, ex))| json!({"path": k, "count": n, "example": ex})).collect::<Vec<_>>()})
        }
        (x, y) => json!({"error": format!("{:?} / {:?}", x.err(), y.err())}),
    }
}

fn frame_obs(mem: &mut Memvid, f: &Frame, content: bool) -> Value {
    let mut v = json!({"id": f.id, "uri": f.uri, "status": format!("{:?}", f.status), "role": format!("{:?}", f.role), "parent": f.parent_id,
        "ts": f.timestamp, "supersedes": f.supersedes, "superseded_by": f.superseded_by, "title": f.title, "track": f.track, "tags": f.tags, "labels": f.labels,
        "enc": format!("{:?}", f.canonical_encoding)});
    if content && f.status == FrameStatus::Active {
        v["payload"] = match mem.frame_canonical_payload(f.id) {
            Ok(b) => json!({"len": b.len(), "b3": hex_digest(&b)}),
            Err(e) => json!({"err": crate::drive::hist::err_kind(&e)}),
        };
        v["blob"] = match mem.blob_reader(f.id) {
            Ok(mut r) => {
                let mut buf = Vec::new();
                match r.read_to_end(&mut buf) {
                    Ok(_) => json!({"len": buf.len(), "b3": hex_digest(&buf)}),
                    Err(e) => json!({"err": format!("io:{}", e.kind())}),
                }
            }
            Err(e) => json!({"err": crate::drive::hist::err_kind(&e)}),
        };
        v["text"] = match mem.frame_text_by_id(f.id) {
            Ok(t) => json!({"len": t.len(), "b3": hex_digest(t.as_bytes())}),
            Err(e) => json!({"err": crate::drive::hist::err_kind(&e)}),
        };
        v["embedding"] = match mem.frame_embedding(f.id) {
            Ok(Some(e)) => json!({"dim": e.len(), "b3": hex_digest(&e.iter().flat_map(|x| x.to_le_bytes()).collect::<Vec<u8>>())}),
            Ok(None) => Value::Null,
            Err(e) => json!({"err": crate::drive::hist::err_kind(&e)}),
        };
    }
    v
}

/// Logical observation of an open handle.
pub fn observe(mem: &mut Memvid, queries: &[String], deep: bool) -> Value {
    let n = mem.frame_count() as u64;
    let mut frames = Vec::new();
    for id in 0..n {
        match mem.frame_by_id(id) {
            Ok(f) => frames.push(frame_obs(mem, &f, true)),
            Err(e) => frames.push(json!({"id": id, "err": crate::drive::hist::err_kind(&e)})),
        }
    }
    let mut out = json!({"frame_count": n, "frames": frames});
    if deep {
        let tl = mem.timeline(TimelineQuery { limit: None, since: None, until: None, reverse: false });
        out["timeline"] = match tl {
            Ok(es) => json!(es.iter().map(|e| json!([e.frame_id, e.timestamp])).collect::<Vec<_>>()),
            Err(e) => json!({"err": crate::drive::hist::err_kind(&e)}),
        };
        let mut sr = Vec::new();
        for q in queries {
            let req = SearchRequest { query: q.clone(), top_k: 50, snippet_chars: 80, uri: None, scope: None, cursor: None, as_of_frame: None, as_of_ts: None, no_sketch: true, acl_context: None, acl_enforcement_mode: Default::default() };
            sr.push(match mem.search(req) {
                Ok(r) => { let mut ids: Vec<u64> = r.hits.iter().map(|h| h.frame_id).collect(); ids.sort_unstable(); ids.dedup(); json!({"q": q, "frames": ids}) }
                Err(e) => json!({"q": q, "err": crate::drive::hist::err_kind(&e)}),
            });
        }
        // the same words through the default path (sketch pre-filter on)
        for q in queries.iter().take(4) {
            let req = SearchRequest { query: q.clone(), top_k: 50, snippet_chars: 80, uri: None, scope: None, cursor: None, as_of_frame: None, as_of_ts: None, no_sketch: false, acl_context: None, acl_enforcement_mode: Default::default() };
            sr.push(match mem.search(req) {
                Ok(r) => { let mut ids: Vec<u64> = r.hits.iter().map(|h| h.frame_id).collect(); ids.sort_unstable(); ids.dedup(); json!({"q": q, "sketch": true, "frames": ids}) }
                Err(e) => json!({"q": q, "sketch": true, "err": crate::drive::hist::err_kind(&e)}),
            });
        }
        out["searches"] = json!(sr);
        out["stats"] = match mem.stats() {
            Ok(s) => json!({"frames": s.frame_count, "active": s.active_frame_count, "seq_no": s.seq_no, "vectors": s.vector_count}),
            Err(e) => json!({"err": crate::drive::hist::err_kind(&e)}),
        };
        out["cards"] = json!(mem.memory_card_count());
        out["card_list"] = json!(mem.memories().cards().iter().map(|c| format!("{}|{}|{}|{}", c.entity, c.slot, c.value, c.source_frame_id)).collect::<Vec<_>>());
        out["vector"] = match mem.search_vec(&[3.0, 1.0, 0.5, 0.25], 8) {
            Ok(h) => json!(h.iter().map(|x| (x.frame_id, x.distance.to_bits())).collect::<Vec<_>>()),
            Err(e) => json!({"err": crate::drive::hist::err_kind(&e)}),
        };
        out["ticket"] = { let t = mem.current_ticket(); json!({"seq_no": t.seq_no, "capacity": t.capacity_bytes, "issuer": t.issuer}) };
    }
    out
}

/// Open one image (`how` = open | ro) and observe; every failure mode becomes a field.
pub fn probe_image(path: &Path, how: &str, queries: &[String], deep: bool) -> Value {
    let t0 = std::time::Instant::now();
    let res = catch_unwind(AssertUnwindSafe(|| {
        let opened = if how == "ro" { Memvid::open_read_only(path) } else { Memvid::open(path) };
        match opened {
            Ok(mut mem) => {
                let mut o = observe(&mut mem, queries, deep);
                o["open"] = json!("ok");
                o
            }
            Err(e) => json!({"open": "err", "kind": crate::drive::hist::err_kind(&e), "error": e.to_string()}),
        }
    }));
    let mut v = match res {
        Ok(v) => v,
        Err(p) => {
            let msg = p.downcast_ref::<String>().cloned().or_else(|| p.downcast_ref::<&str>().map(|s| s.to_string())).unwrap_or_default();
            json!({"open": "panic", "message": msg})
        }
    };
    v["path"] = json!(path.to_string_lossy());
    v["how"] = json!(how);
    v["ms"] = json!(t0.elapsed().as_millis() as u64);
    v
}

pub fn main() {
    let args = Args::parse();
    let mode = args.pos.first().cloned().unwrap_or_default();
    // the panic message is captured through catch_unwind; remember the location for the report
    std::panic::set_hook(Box::new(|info| {
        if let Some(loc) = info.location() {
            eprintln!("PANIC-AT {}:{}", loc.file(), loc.line());
        }
    }));
    match mode.as_str() {
        "raw" => {
            for p in &args.pos[1..] {
                println!("{}", serde_json::to_string(&raw_layout(Path::new(p))).unwrap());
            }
        }
        "fault" => crate::fault::main(&args),
        "tocdiff" => {
            println!("{}", serde_json::to_string(&toc_diff(Path::new(&args.pos[1]), Path::new(&args.pos[2]))).unwrap());
        }
        "obs" => {
            if args.flag("marks") {
                // under the recorder: name the internal phase of every file-system mutation
                crate::drive::record::install_phase_marks();
            }
            let how = args.str("how").unwrap_or("open").to_string();
            let deep = !args.flag("shallow");
            let queries: Vec<String> = args.str("queries").map(|q| q.split(',').map(str::to_string).collect()).unwrap_or_default();
            let mut paths: Vec<String> = args.pos[1..].to_vec();
            if paths.is_empty() {
                paths = std::io::stdin().lock().lines().map_while(Result::ok).collect();
            }
            for p in paths {
                let v = probe_image(Path::new(&p), &how, &queries, deep);
                println!("{}", serde_json::to_string(&v).unwrap());
            }
        }
        other => {
            eprintln!("unknown mode {other}");
            std::process::exit(2);
        }
    }
}
