//! File-image probe (engines E2/E3).
pub fn main() {}
