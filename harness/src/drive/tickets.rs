//! C24 — capacity limit; C25 — ticket sequence and signatures.

use ed25519_dalek::{Signer, SigningKey};
use memvid_core::types::{MemoryBinding, SignedTicket, Ticket};
use memvid_core::{Memvid, MemvidError, PutOptions, verify_ticket_signature};
use serde_json::{Value, json};
use uuid::Uuid;

use crate::{Report, Rng, h64};

fn payload_end(mem: &Memvid) -> u64 {
    let mut end = 0u64;
    for id in 0..mem.frame_count() as u64 {
        if let Ok(f) = mem.frame_by_id(id) {
            if f.payload_length > 0 {
                end = end.max(f.payload_offset + f.payload_length);
            }
        }
    }
    end
}

fn incompressible(rng: &mut Rng, n: usize) -> Vec<u8> {
    let mut b = rng.bytes(n.max(1));
    b[0] = 0xFF;
    b
}

fn opts(i: u64) -> PutOptions {
    let mut o = PutOptions::default();
    o.timestamp = Some(1_700_000_000 + i as i64);
    o.instant_index = false;
    o.auto_tag = false;
    o.extract_triplets = false;
    o
}

#[derive(Clone, Debug, PartialEq)]
enum Decision { Accepted, Rejected, Other(String) }

/// Run one put sequence; `commit_each`: commit after every accepted put. Returns decisions.
fn capacity_run(rep: &mut Report, dir: &std::path::Path, name: &str, sizes: &[usize], seeds: &[u64], commits: &[bool], delta: u64, judge: bool, detail: &Value) -> Option<Vec<Decision>> {
    let path = dir.join(name);
    let mut mem = Memvid::create(&path).ok()?;
    mem.put_bytes_with_options(b"baseline document", opts(0)).ok()?;
    mem.commit().ok()?;
    let base_end = payload_end(&mem).max(mem.stats().ok()?.wal_bytes + 4096);
    let cap = base_end + delta;
    #[allow(deprecated)]
    mem.apply_ticket(Ticket { issuer: "verif".into(), seq_no: 2, expires_in_secs: 0, capacity_bytes: Some(cap) }).ok()?;
    let wal0 = mem.stats().ok()?.wal_bytes;
    let mut out = Vec::new();
    for (i, ((size, seed), commit)) in sizes.iter().zip(seeds).zip(commits).enumerate() {
        let before = (mem.frame_count(), mem.next_frame_id(), mem.stats().ok().map(|s| (s.frame_count, s.payload_bytes, s.size_bytes)));
        // two thirds incompressible binary (stored as is), one third UTF-8 text (stored compressed: the stored length differs
        // from the input length, for short texts it is larger)
        let payload = if seed % 3 == 0 { super::hist::text_of(&mut Rng(*seed), (*size).min(1200), "cap").into_bytes() } else { incompressible(&mut Rng(*seed), *size) };
        let pending_before = mem.next_frame_id() as usize > mem.frame_count();
        let r = mem.put_bytes_with_options(&payload, opts(i as u64 + 1));
        match r {
            Ok(_) => out.push(Decision::Accepted),
            Err(MemvidError::CapacityExceeded { .. }) => {
                out.push(Decision::Rejected);
                if judge {
                    rep.count("rejections_checked");
                    let after = (mem.frame_count(), mem.next_frame_id(), mem.stats().ok().map(|s| (s.frame_count, s.payload_bytes, s.size_bytes)));
                    if after != before {
                        rep.violation("C24:rejected-put-changed-state", format!("put {i} answered CapacityExceeded but (frame_count, next_frame_id, stats) went {before:?} -> {after:?}"), detail.clone());
                    }
                }
            }
            Err(e) => out.push(Decision::Other(e.to_string())),
        }
        if *commit || !judge {
            if let Err(e) = mem.commit() {
                if judge { rep.violation("C24:commit-failed", e.to_string(), detail.clone()); }
                return Some(out);
            }
        }
        {
            if mem.stats().ok()?.wal_bytes != wal0 {
                // offsets shifted: the baseline no longer applies
                if judge { rep.inconclusive(json!({"reason": "WAL grew during a capacity history", "case": detail})); }
                return None;
            }
            let end = payload_end(&mem);
            rep.count("capacity_checks");
            if end > cap {
                // the known defect needs accepted puts that were still un-committed when this put was judged; the twin run
                // (commit after every put) and a put that follows a commit directly cannot be explained by it
                let cause = if !judge || (*commit && !pending_before) { "no-pending-bytes" } else { "pending-bytes-ignored" };
                rep.violation(&format!("C24:payload-end-exceeds-capacity:{cause}"), format!("payload region ends at {end}, capacity is {cap} (over by {}) after put {i} (input {} bytes, commit {commit}, twin run {})", end - cap, payload.len(), !judge), detail.clone());
                return Some(out);
            }
        }
    }
    // final commit: whatever was accepted must still fit
    if judge {
        if mem.commit().is_ok() {
            let end = payload_end(&mem);
            rep.count("capacity_checks");
            if mem.stats().ok()?.wal_bytes == wal0 && end > cap {
                rep.violation("C24:payload-end-exceeds-capacity:pending-bytes-ignored", format!("after the final commit the payload region ends at {end}, capacity is {cap} (over by {})", end - cap), detail.clone());
            }
        }
    }
    Some(out)
}

/// Capacity placed a few bytes around the exact stored end of one put (learnt from a probe run with a huge capacity), every
/// put committed at once: the put that would end past the limit must be refused, the one that just fits may be accepted, and
/// the committed payload region never ends beyond the capacity. Random deltas almost never land in this window of a few bytes.
fn capacity_boundary(rep: &mut Report, dir: &std::path::Path, rng: &mut Rng) {
    let n = rng.usize(1, 4);
    let seeds: Vec<u64> = (0..n).map(|_| rng.next()).collect();
    let sizes: Vec<usize> = (0..n).map(|_| match rng.below(4) { 0 => rng.usize(1, 40), 1 => rng.usize(40, 200), _ => rng.usize(200, 1500) }).collect();
    let payload = |i: usize| -> Vec<u8> { if seeds[i] % 3 != 1 { super::hist::text_of(&mut Rng(seeds[i]), sizes[i].min(1200), "cap").into_bytes() } else { incompressible(&mut Rng(seeds[i]), sizes[i]) } };
    let run = |name: &str, cap: u64| -> Option<(Vec<u64>, Vec<bool>, u64)> {
        let path = dir.join(name);
        let _ = std::fs::remove_file(&path);
        let mut mem = Memvid::create(&path).ok()?;
        mem.put_bytes_with_options(b"baseline document", opts(0)).ok()?;
        mem.commit().ok()?;
        let base_end = payload_end(&mem);
        #[allow(deprecated)]
        mem.apply_ticket(Ticket { issuer: "verif".into(), seq_no: 2, expires_in_secs: 0, capacity_bytes: Some(cap) }).ok()?;
        let wal0 = mem.stats().ok()?.wal_bytes;
        let (mut ends, mut accepted) = (Vec::new(), Vec::new());
        // one lineage of updates: some of the operations replace the newest version of the baseline document by a new payload
        // (an update appends its payload like a put does: the region is append-only)
        let mut lineage = 0u64;
        for i in 0..n {
            let as_update = seeds[i] % 4 == 3;
            let predicted = mem.next_frame_id();
            let r = if as_update { mem.update_frame(lineage, Some(payload(i)), opts(i as u64 + 1), None) } else { mem.put_bytes_with_options(&payload(i), opts(i as u64 + 1)) };
            if as_update && r.is_ok() { lineage = predicted; }
            accepted.push(r.is_ok());
            mem.commit().ok()?;
            if mem.stats().ok()?.wal_bytes != wal0 { return None; }
            ends.push(payload_end(&mem));
        }
        Some((ends, accepted, base_end))
    };
    let Some((ends, _, base_end)) = run("probe.mv2", 1 << 40) else { return };
    let j = rng.usize(0, n - 1);
    let k = rng.range(-3, 14);
    // never below what is already stored when the put arrives (a limit under the committed data cannot be honoured by refusing puts)
    let before_j = if j == 0 { base_end } else { ends[j - 1] };
    let cap = ((ends[j] as i64 - k).max(0) as u64).max(before_j);
    let k = ends[j] as i64 - cap as i64;
    let detail = json!({"mode": "c24-boundary", "sizes": sizes, "seeds": seeds, "put": j, "stored_end_of_that_put": ends[j], "capacity": cap, "k": k});
    let Some((ends2, accepted, _)) = run("edge.mv2", cap) else { return };
    rep.count("boundary_cases");
    if seeds[j] % 4 == 3 { rep.count("boundary_cases_on_an_update"); }
    rep.count(if k > 0 { "boundary_cases_put_must_not_fit" } else { "boundary_cases_put_fits" });
    for (i, end) in ends2.iter().enumerate() {
        rep.count("capacity_checks");
        if *end > cap {
            rep.violation("C24:payload-end-exceeds-capacity:no-pending-bytes", format!("capacity {cap} = stored end of put {j} minus {k}; every put committed at once; after put {i} (accepted: {}) the payload region ends at {end} (over by {})", accepted[i], end - cap), detail.clone());
            return;
        }
    }
    // (whether a put that would fit is accepted is not part of the property: only the invariant is judged)
    let _ = (&accepted, detail);
}

pub fn c24(rep: &mut Report, scratch: &std::path::Path, rng: &mut Rng, cases: u64) {
    for c in ["capacity_checks", "rejections_checked", "twin_comparisons", "boundary_cases_put_must_not_fit"] { rep.require(c); }
    for case in 0..cases {
        rep.eval();
        let dir = scratch.join(format!("edge{case}"));
        let _ = std::fs::create_dir_all(&dir);
        capacity_boundary(rep, &dir, rng);
        let _ = std::fs::remove_dir_all(&dir);
    }
    for case in 0..cases {
        rep.eval();
        let dir = scratch.join(format!("cap{case}"));
        let _ = std::fs::create_dir_all(&dir);
        let delta = match rng.below(4) { 0 => rng.below(200), 1 => rng.below(4096), _ => rng.below(1500) };
        let n = rng.usize(2, 7);
        let sizes: Vec<usize> = (0..n).map(|_| match rng.below(5) { 0 => rng.usize(1, 30), 1 => rng.usize(1000, 5000), _ => rng.usize(20, 500) }).collect();
        let seeds: Vec<u64> = (0..n).map(|_| rng.next()).collect();
        let commits: Vec<bool> = (0..n).map(|_| rng.chance(1, 3)).collect();
        let detail = json!({"mode": "c24", "delta": delta, "sizes": sizes, "commits": commits, "seeds": seeds});
        let a = capacity_run(rep, &dir, "a.mv2", &sizes, &seeds, &commits, delta, true, &detail);
        let all = vec![true; n];
        let b = capacity_run(rep, &dir, "twin.mv2", &sizes, &seeds, &all, delta, false, &detail);
        if let (Some(a), Some(b)) = (&a, &b) {
            // the twin commits after every put, so its decisions are the reference for "would exceed"
            rep.count("twin_comparisons");
            if a.len() == b.len() && a != b && !a.iter().chain(b.iter()).any(|d| matches!(d, Decision::Other(_))) {
                let first = a.iter().zip(b.iter()).position(|(x, y)| x != y).unwrap_or(0);
                rep.violation("C24:decision-differs-from-commit-each-twin", format!("put {first}: {:?} without intervening commits, {:?} when every put is committed", a[first], b[first]), detail.clone());
            }
        }
        rep.nontrivial(h64(format!("{delta}{sizes:?}{commits:?}").as_bytes()));
        if case < 2 { rep.sample(detail); }
        let _ = std::fs::remove_dir_all(&dir);
    }
}

// ---------------------------------------------------------------------------------------- C25

fn canonical_ticket_payload(memory_id: &Uuid, issuer: &str, seq_no: i64, expires_in: u64, capacity: Option<u64>) -> Vec<u8> {
    // independent re-implementation of the documented canonical payload (field order as signed)
    format!(
        "{{\"version\":1,\"memory_id\":\"{}\",\"issuer\":{},\"seq_no\":{},\"expires_in\":{},\"capacity_bytes\":{}}}",
        memory_id.hyphenated(),
        serde_json::to_string(issuer).unwrap(),
        seq_no,
        expires_in,
        capacity.map_or("null".to_string(), |c| c.to_string())
    )
    .into_bytes()
}

fn ticket_state(mem: &Memvid) -> (Option<i64>, u64, String, i64, u64, bool) {
    let t = mem.current_ticket();
    (mem.stats().ok().and_then(|s| s.seq_no), mem.get_capacity(), t.issuer, t.seq_no, t.capacity_bytes, t.verified)
}

pub fn c25(rep: &mut Report, scratch: &std::path::Path, rng: &mut Rng, cases: u64) {
    for c in ["tickets_accepted", "tickets_rejected", "signed_accepted", "signed_tampered_rejected", "embedded_key_rejections", "reopens"] { rep.require(c); }
    // harness key pair (deterministic)
    let sk = SigningKey::from_bytes(&[7u8; 32]);
    let vk = sk.verifying_key();
    for case in 0..cases {
        let dir = scratch.join(format!("tk{case}"));
        let _ = std::fs::create_dir_all(&dir);
        let path = dir.join("t.mv2");
        let Ok(created) = Memvid::create(&path) else { rep.inconclusive(json!({"reason": "create"})); continue };
        let mut log: Vec<Value> = Vec::new();
        let mut max_seq = created.current_ticket().seq_no;
        let mut slot = Some(created);
        let memory_id = Uuid::from_u128(u128::from(rng.next()) << 64 | u128::from(rng.next()));
        let mut bound = false;
        let detail = |log: &Vec<Value>| json!({"mode": "c25", "history": log});
        let mut puts = 0u64;
        for step in 0..rng.usize(8, 20) {
            rep.eval();
            let roll = rng.below(100);
            let Some(mem) = slot.as_mut() else { break };
            if roll < 45 {
                // unsigned ticket
                let seq = match rng.below(10) { 0 => max_seq, 1 => max_seq.saturating_add(1), 2 => max_seq.saturating_sub(1), 3 => i64::MIN, 4 if rng.chance(1, 6) => i64::MAX - rng.range(0, 2), 5 => 0, 6 => -rng.range(1, 50), _ => max_seq.saturating_add(rng.range(-3, 6)) };
                let cap = match rng.below(3) { 0 => None, 1 => Some(rng.below(1 << 40)), _ => Some(50 << 20) };
                let issuer = rng.pick(&["verif", "memvid.com", "", "free-tier"]).to_string();
                let before = ticket_state(&mem);
                let bytes_before = std::fs::read(&path).unwrap_or_default();
                log.push(json!({"op": "apply_ticket", "seq": seq, "capacity": cap, "issuer": issuer, "max_accepted": max_seq}));
                #[allow(deprecated)]
                let r = match std::panic::catch_unwind(std::panic::AssertUnwindSafe(|| mem.apply_ticket(Ticket { issuer: issuer.clone(), seq_no: seq, expires_in_secs: 60, capacity_bytes: cap }))) {
                    Ok(r) => r,
                    Err(p) => {
                        let msg = p.downcast_ref::<String>().cloned().or_else(|| p.downcast_ref::<&str>().map(|s| s.to_string())).unwrap_or_default();
                        let cls = if max_seq == i64::MAX { "current-sequence-is-i64-max" } else { "other" };
                        rep.violation(&format!("C25:apply-ticket-panicked:{cls}"), format!("apply_ticket(seq {seq}) with highest accepted {max_seq} panicked: {msg}"), detail(&log));
                        break;
                    }
                };
                let should = seq > max_seq;
                match (r, should) {
                    (Ok(()), true) => {
                        rep.count("tickets_accepted");
                        max_seq = seq;
                        let t = mem.current_ticket();
                        if t.seq_no != seq || t.issuer != issuer || t.capacity_bytes != cap.unwrap_or(0) || t.verified {
                            rep.violation("C25:accepted-ticket-not-reflected", format!("current_ticket() = {t:?} after accepting seq {seq}"), detail(&log));
                            break;
                        }
                    }
                    (Err(MemvidError::TicketSequence { .. }), false) => {
                        rep.count("tickets_rejected");
                        if ticket_state(&mem) != before {
                            rep.violation("C25:rejected-ticket-changed-state", format!("state {before:?} -> {:?}", ticket_state(&mem)), detail(&log));
                            break;
                        }
                        if std::fs::read(&path).unwrap_or_default() != bytes_before {
                            rep.violation("C25:rejected-ticket-changed-file", "file bytes changed by a rejected ticket".into(), detail(&log));
                            break;
                        }
                    }
                    (Ok(()), false) => { rep.violation("C25:stale-sequence-accepted", format!("ticket seq {seq} accepted although {max_seq} was accepted before"), detail(&log)); break; }
                    (Err(e), true) => { rep.violation("C25:fresh-sequence-rejected", format!("ticket seq {seq} > {max_seq} rejected: {e}"), detail(&log)); break; }
                    (Err(e), false) => { rep.violation("C25:wrong-rejection-error", format!("stale ticket rejected with {e}"), detail(&log)); break; }
                }
            } else if roll < 75 {
                // signed ticket
                if !bound {
                    let b = MemoryBinding { memory_id, memory_name: "verif".into(), bound_at: chrono::DateTime::from_timestamp(1_700_000_000, 0).unwrap(), api_url: "https://example.invalid".into() };
                    log.push(json!({"op": "set_memory_binding_only"}));
                    if mem.set_memory_binding_only(b).is_err() { rep.inconclusive(json!({"reason": "binding"})); break; }
                    bound = true;
                }
                let seq = if rng.chance(2, 3) { max_seq.saturating_add(rng.range(1, 4)) } else { max_seq.saturating_sub(rng.range(0, 2)) };
                let cap = if rng.chance(1, 2) { Some(rng.below(1 << 36)) } else { None };
                let issuer = "memvid.com".to_string();
                let expires = rng.below(100_000);
                let sig = sk.sign(&canonical_ticket_payload(&memory_id, &issuer, seq, expires, cap)).to_bytes().to_vec();
                let tamper = rng.below(10);
                let mut t = SignedTicket::new(issuer.clone(), seq, expires, cap, memory_id, sig.clone());
                let tname = match tamper {
                    0 => { t.issuer = "evil.example".into(); "issuer" }
                    1 => { t.seq_no = seq.wrapping_add(1); "seq_no" }
                    2 => { t.expires_in_secs = expires + 1; "expires" }
                    3 => { t.capacity_bytes = Some(cap.unwrap_or(0) + 1); "capacity" }
                    4 => { t.memory_id = Uuid::from_u128(memory_id.as_u128() ^ 1); "memory_id" }
                    5 => { let i = rng.usize(0, 63); t.signature[i] ^= 1 << rng.below(8); "signature-bit" }
                    6 => { t.signature.truncate(63); "signature-truncated" }
                    _ => "none",
                };
                let use_override = !rng.chance(1, 5);
                memvid_core::verif_hooks::set_ticket_key_override(if use_override { Some(vk.to_bytes()) } else { None });
                let before = ticket_state(&mem);
                let bytes_before = std::fs::read(&path).unwrap_or_default();
                log.push(json!({"op": "apply_signed_ticket", "seq": seq, "capacity": cap, "expires": expires, "tamper": tname, "harness_key_installed": use_override, "max_accepted": max_seq}));
                let r = match std::panic::catch_unwind(std::panic::AssertUnwindSafe(|| mem.apply_signed_ticket(t))) {
                    Ok(r) => r,
                    Err(p) => {
                        memvid_core::verif_hooks::set_ticket_key_override(None);
                        let msg = p.downcast_ref::<String>().cloned().or_else(|| p.downcast_ref::<&str>().map(|s| s.to_string())).unwrap_or_default();
                        let cls = if max_seq == i64::MAX { "current-sequence-is-i64-max" } else { "other" };
                        rep.violation(&format!("C25:apply-signed-ticket-panicked:{cls}"), format!("apply_signed_ticket(seq {seq}) with highest accepted {max_seq} panicked: {msg}"), detail(&log));
                        break;
                    }
                };
                memvid_core::verif_hooks::set_ticket_key_override(None);
                let authentic = tname == "none" && use_override;
                let should = authentic && seq > max_seq;
                match (r, should) {
                    (Ok(()), true) => {
                        rep.count("signed_accepted");
                        max_seq = seq;
                        let cur = mem.current_ticket();
                        if cur.seq_no != seq || !cur.verified { rep.violation("C25:accepted-signed-ticket-not-reflected", format!("current_ticket() = {cur:?}"), detail(&log)); break; }
                    }
                    (Ok(()), false) => {
                        let why = if !authentic { if use_override { format!("tampered-{tname}") } else { "signed-by-foreign-key".to_string() } } else { "stale-sequence".to_string() };
                        rep.violation(&format!("C25:signed-ticket-accepted:{why}"), format!("signed ticket accepted although it is {why}"), detail(&log));
                        break;
                    }
                    (Err(e), true) => { rep.violation("C25:authentic-signed-ticket-rejected", format!("authentic ticket with fresh sequence rejected: {e}"), detail(&log)); break; }
                    (Err(_), false) => {
                        if !use_override { rep.count("embedded_key_rejections"); } else if tname != "none" { rep.count("signed_tampered_rejected"); } else { rep.count("tickets_rejected"); }
                        if ticket_state(&mem) != before || std::fs::read(&path).unwrap_or_default() != bytes_before {
                            rep.violation("C25:rejected-signed-ticket-changed-state", format!("state {before:?} -> {:?}", ticket_state(&mem)), detail(&log));
                            break;
                        }
                    }
                }
            } else if roll < 85 {
                puts += 1;
                log.push(json!({"op": "put"}));
                let _ = mem.put_bytes_with_options(format!("ticket history doc {case} {step}").as_bytes(), opts(puts));
            } else if roll < 92 {
                log.push(json!({"op": "commit"}));
                if let Err(e) = mem.commit() { rep.violation("C25:commit-failed-after-ticket", e.to_string(), detail(&log)); break; }
            } else {
                log.push(json!({"op": "reopen"}));
                slot = None;
                match Memvid::open(&path) {
                    Ok(m) => {
                        rep.count("reopens");
                        let cur = m.current_ticket().seq_no;
                        slot = Some(m);
                        if cur != max_seq {
                            rep.violation("C25:sequence-not-persisted", format!("after reopen the current sequence is {cur}, highest accepted was {max_seq}"), detail(&log));
                            break;
                        }
                    }
                    Err(e) => { rep.violation("C25:reopen-failed-after-ticket", e.to_string(), detail(&log)); break; }
                }
            }
        }
        // direct signature API
        let msg_ok = {
            let sig = sk.sign(&canonical_ticket_payload(&memory_id, "memvid.com", 5, 10, Some(9))).to_bytes();
            let good = verify_ticket_signature(&vk, &memory_id, "memvid.com", 5, 10, Some(9), &sig).is_ok();
            let bad = verify_ticket_signature(&vk, &memory_id, "memvid.com", 6, 10, Some(9), &sig).is_ok();
            (good, bad)
        };
        if !msg_ok.0 { rep.violation("C25:verify-rejects-authentic-signature", "verify_ticket_signature rejects a signature over the canonical payload".into(), detail(&log)); }
        if msg_ok.1 { rep.violation("C25:verify-accepts-wrong-payload", "verify_ticket_signature accepts a signature for a different seq_no".into(), detail(&log)); }
        rep.nontrivial(h64(serde_json::to_string(&log).unwrap_or_default().as_bytes()));
        if case < 2 { rep.sample(json!({"history_head": log.iter().take(6).cloned().collect::<Vec<_>>(), "ops": log.len()})); }
        drop(slot);
        let _ = std::fs::remove_dir_all(&dir);
    }
}
