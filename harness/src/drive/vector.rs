//! C13 — exact nearest neighbours; C14 — vector index membership equals the active embedded frames.

use std::collections::{BTreeMap, BTreeSet};

use memvid_core::types::{DoctorOptions, FrameStatus, PutManyOpts, PutOptions};
use memvid_core::{Memvid, MemvidError};
use serde_json::json;

use crate::{Report, Rng, h64};

fn rand_vec(rng: &mut Rng, dim: usize, flavour: u64) -> Vec<f32> {
    (0..dim)
        .map(|_| match flavour {
            0 => 0.0,
            // +-1e18 keeps squared distances finite in f32; +-3e19 makes them overflow to +inf (still a frame that has to be returned)
            1 => rng.pick(&[1.0e18f32, -1.0e18, 1.0e18, -1.0e18, 3.0e19, -3.0e19]),
            2 => (rng.below(3) as f32) - 1.0, // many ties
            _ => ((rng.f32_unit() * 2.0 - 1.0) * 1000.0).round() / 1000.0,
        })
        .collect()
}

/// L2 distance in f64. A distance whose square does not fit an f32 is +inf: the index computes in f32, all such frames are
/// "infinitely far" ties for it, and demanding an order among them would ask for more than f32 arithmetic can give. (They
/// still have to be returned: the hit count is judged as before.)
fn dist64(a: &[f32], b: &[f32]) -> f64 {
    let sq = a.iter().zip(b).map(|(x, y)| { let d = f64::from(*x) - f64::from(*y); d * d }).sum::<f64>();
    if sq > f64::from(f32::MAX) { f64::INFINITY } else { sq.sqrt() }
}

fn put_embedded(mem: &mut Memvid, i: usize, emb: Vec<f32>) -> Result<u64, MemvidError> {
    let mut o = PutOptions::default();
    o.timestamp = Some(1_700_000_000 + i as i64);
    o.uri = Some(format!("mv2://v/{i}"));
    o.instant_index = false;
    o.auto_tag = false;
    o.extract_triplets = false;
    mem.put_with_embedding_and_options(format!("vector doc {i}").as_bytes(), emb, o)
}

pub fn c13(rep: &mut Report, scratch: &std::path::Path, rng: &mut Rng, cases: u64, max_m: usize) {
    for c in ["queries", "reopen_comparisons", "dimension_mismatch_rejected", "queries_with_k_above_m"] { rep.require(c); }
    for case in 0..cases {
        let dir = scratch.join(format!("v{case}"));
        let _ = std::fs::create_dir_all(&dir);
        let path = dir.join("vec.mv2");
        let dim = match rng.below(5) { 0 => 1, 1 => 64, _ => rng.usize(2, 40) };
        let m = if rng.chance(1, 6) { rng.usize(0, 3) } else { rng.usize(1, max_m) };
        let mut embs: Vec<Vec<f32>> = Vec::new();
        for i in 0..m {
            let e = if i > 0 && rng.chance(1, 8) { embs[rng.usize(0, i - 1)].clone() } else { let fl = match rng.below(12) { 0 => 0, 1 => 1, 2 | 3 => 2, _ => 9 }; rand_vec(rng, dim, fl) };
            embs.push(e);
        }
        let detail = |extra: serde_json::Value| json!({"mode": "c13", "dim": dim, "m": m, "embeddings": if m <= 12 { json!(embs) } else { json!(format!("{m} vectors, first {:?}", embs.first())) }, "case": extra});
        let Ok(mut mem) = Memvid::create(&path) else { rep.inconclusive(json!({"reason": "create"})); continue };
        let _ = mem.begin_batch(PutManyOpts::default());
        let mut ok = true;
        for (i, e) in embs.iter().enumerate() {
            if let Err(err) = put_embedded(&mut mem, i, e.clone()) {
                rep.violation("C13:put-with-embedding-failed", format!("put {i} failed: {err}"), detail(json!(null)));
                ok = false;
                break;
            }
        }
        let _ = mem.end_batch();
        if !ok { continue; }
        if let Err(err) = mem.commit() { rep.violation("C13:commit-failed", err.to_string(), detail(json!(null))); continue; }
        // frame i holds embs[i] (one frame per put: payloads are tiny)
        let mut recorded: Vec<(Vec<f32>, usize, Vec<(u64, u32)>)> = Vec::new();
        for qn in 0..6 {
            rep.eval();
            let q = if qn == 0 && m > 0 { embs[rng.usize(0, m - 1)].clone() } else { let fl = match rng.below(8) { 0 => 0, 1 => 1, 2 => 2, _ => 9 }; rand_vec(rng, dim, fl) };
            let k = match rng.below(6) { 0 => 0, 1 => 1, 2 => m, 3 => m + rng.usize(1, 3), _ => rng.usize(0, m + 3) };
            if k > m { rep.count("queries_with_k_above_m"); }
            let hits = match mem.search_vec(&q, k) {
                Ok(h) => h,
                Err(MemvidError::VecNotEnabled) if m == 0 => { rep.count("empty_index_not_enabled"); continue; }
                Err(err) => { rep.violation("C13:search-error", format!("search_vec failed: {err}"), detail(json!({"q": q, "k": k}))); continue; }
            };
            rep.count("queries");
            let d = detail(json!({"q": q, "k": k, "hits": hits.iter().map(|h| (h.frame_id, h.distance)).collect::<Vec<_>>()}));
            if hits.len() != k.min(m) {
                rep.violation("C13:wrong-hit-count", format!("{} hits for k={k}, m={m}", hits.len()), d.clone());
                continue;
            }
            if hits.windows(2).any(|w| w[0].distance > w[1].distance) {
                rep.violation("C13:distances-not-sorted", "hit distances decrease somewhere".into(), d.clone());
                continue;
            }
            let ids: BTreeSet<u64> = hits.iter().map(|h| h.frame_id).collect();
            if ids.len() != hits.len() || ids.iter().any(|id| *id as usize >= m) {
                rep.violation("C13:duplicate-or-unknown-hit", "a frame is returned twice or does not exist".into(), d.clone());
                continue;
            }
            // reported distance agrees with the definition
            if let Some(h) = hits.iter().find(|h| { let r = dist64(&q, &embs[h.frame_id as usize]); if r.is_infinite() { !h.distance.is_infinite() && f64::from(h.distance) < 1.0e19 } else { (f64::from(h.distance) - r).abs() > r * 1e-4 + 1e-6 } }) {
                rep.violation("C13:reported-distance-wrong", format!("frame {} reported at {}, L2 is {}", h.frame_id, h.distance, dist64(&q, &embs[h.frame_id as usize])), d.clone());
                continue;
            }
            if let Some(last) = hits.last() {
                let last_d = dist64(&q, &embs[last.frame_id as usize]);
                // relative guard against f32 rounding: only a clearly closer omitted frame counts
                if let Some((i, _)) = embs.iter().enumerate().find(|(i, e)| !ids.contains(&(*i as u64)) && (if last_d.is_infinite() { dist64(&q, e).is_finite() } else { dist64(&q, e) < last_d * (1.0 - 1e-5) - 1e-9 })) {
                    rep.violation("C13:closer-frame-omitted", format!("frame {i} at distance {} is omitted, last hit is at {last_d}", dist64(&q, &embs[i])), d.clone());
                    continue;
                }
            }
            recorded.push((q, k, hits.iter().map(|h| (h.frame_id, h.distance.to_bits())).collect()));
        }
        // wrong dimension
        if m > 0 {
            let wrong_dim = dim + 1 + rng.usize(0, 2);
            let wrong = rand_vec(rng, wrong_dim, 9);
            match mem.search_vec(&wrong, 3) {
                Err(MemvidError::VecDimensionMismatch { .. }) => rep.count("dimension_mismatch_rejected"),
                other => rep.violation("C13:wrong-dimension-accepted", format!("query of dimension {} against index of {dim}: {:?}", wrong.len(), other.map(|h| h.len())), detail(json!(null))),
            }
        }
        // identical after close and reopen (rw, then ro)
        drop(mem);
        for how in ["open", "open_read_only"] {
            let opened = if how == "open" { Memvid::open(&path) } else { Memvid::open_read_only(&path) };
            let Ok(mut mem) = opened else { rep.violation(&format!("C13:{how}-failed"), "reopen failed".into(), detail(json!(null))); break };
            for (q, k, before) in &recorded {
                match mem.search_vec(q, *k) {
                    Ok(h) => {
                        rep.count("reopen_comparisons");
                        let after: Vec<(u64, u32)> = h.iter().map(|x| (x.frame_id, x.distance.to_bits())).collect();
                        if &after != before {
                            rep.violation(&format!("C13:results-differ-after-{how}"), format!("before close {before:?}, after {after:?}"), detail(json!({"q": q, "k": k})));
                            break;
                        }
                    }
                    Err(MemvidError::VecNotEnabled) if m == 0 => {}
                    Err(e) => { rep.violation(&format!("C13:search-error-after-{how}"), e.to_string(), detail(json!({"q": q, "k": k}))); break; }
                }
            }
        }
        rep.nontrivial(h64(format!("{dim}:{m}:{:?}", embs.first()).as_bytes()));
        if case < 2 { rep.sample(json!({"dim": dim, "vectors": m, "queries": recorded.len()})); }
        let _ = std::fs::remove_dir_all(&dir);
    }
}

/// C14: E = active frames that were given an embedding. `sizes`: target vector counts per history.
pub fn c14(rep: &mut Report, scratch: &std::path::Path, rng: &mut Rng, sizes: &[usize], config: &str) {
    for c in ["membership_checks", "embedding_reads", "self_queries", "checks_after_reopen", "checks_after_doctor", "checks_after_crash_replay", "updates_carrying_embedding", "deletes"] { rep.require(c); }
    for (hn, &target) in sizes.iter().enumerate() {
        let dir = scratch.join(format!("m{hn}"));
        let _ = std::fs::create_dir_all(&dir);
        let path = dir.join("vec.mv2");
        let Ok(mut mem) = Memvid::create(&path) else { rep.inconclusive(json!({"reason": "create"})); continue };
        let dim = 4usize;
        // model: frame id -> (status, embedding)
        let mut frames: Vec<(FrameStatus, Option<Vec<f32>>)> = Vec::new();
        let mut log: Vec<serde_json::Value> = Vec::new();
        let mut uniq = 0u64;
        let mut next_emb = |rng: &mut Rng| -> Vec<f32> { uniq += 1; vec![uniq as f32, (uniq % 7) as f32, rng.f32_unit(), 1.0] };
        let detail = |log: &Vec<serde_json::Value>| json!({"mode": "c14", "config": config, "target": target, "history_tail": log.iter().rev().take(12).rev().cloned().collect::<Vec<_>>(), "ops": log.len()});
        let _ = mem.begin_batch(PutManyOpts::default());
        let mut failed = false;
        let mut i = 0usize;
        // commits made while the file held 1000 or more embedded frames: the first of them builds the HNSW representation,
        // every later one rebuilds the index from it (the commits that bracket updates and deletes count)
        let mut commits_past_switch = 0usize;
        let past_switch = |frames: &Vec<(FrameStatus, Option<Vec<f32>>)>| frames.iter().filter(|f| f.1.is_some()).count() >= 1000;
        while frames.iter().filter(|f| f.0 == FrameStatus::Active && f.1.is_some()).count() < target && !failed {
            i += 1;
            rep.eval();
            // large histories: keep the (commit-bracketed) updates/deletes rare so the run stays bounded
            let roll = if target > 300 && !rng.chance(1, 8) { 0 } else { rng.below(100) };
            if roll < 80 || frames.is_empty() {
                let with = rng.chance(9, 10);
                let emb = if with { Some(next_emb(rng)) } else { None };
                let mut o = PutOptions::default();
                o.timestamp = Some(1_700_000_000 + i as i64);
                o.instant_index = false;
                o.auto_tag = false;
                o.extract_triplets = false;
                let r = match &emb { Some(e) => mem.put_with_embedding_and_options(format!("doc {i}").as_bytes(), e.clone(), o), None => mem.put_bytes_with_options(format!("plain {i}").as_bytes(), o) };
                match r {
                    Ok(_) => { log.push(json!({"op": "put", "emb": emb.is_some()})); frames.push((FrameStatus::Active, emb)); }
                    Err(e) => { rep.violation("C14:put-failed", e.to_string(), detail(&log)); failed = true; }
                }
            } else {
                // updates and deletes need committed frames
                if let Err(e) = mem.commit() { rep.violation(&format!("C14:commit-failed:{}:{config}", super::hist::err_kind(&e)), format!("commit before update/delete failed: {e}"), detail(&log)); failed = true; break; }
                if past_switch(&frames) { commits_past_switch += 1; }
                let active: Vec<usize> = frames.iter().enumerate().filter(|(_, f)| f.0 == FrameStatus::Active).map(|(i, _)| i).collect();
                if active.is_empty() { continue; }
                let t = rng.pick(&active);
                if roll < 90 {
                    let new_emb = if rng.chance(1, 2) { Some(next_emb(rng)) } else { None };
                    let payload = if rng.chance(1, 2) { Some(format!("updated {i}").into_bytes()) } else { None };
                    let mut o = PutOptions::default();
                    o.instant_index = false;
                    o.auto_tag = false;
                    match mem.update_frame(t as u64, payload.clone(), o, new_emb.clone()) {
                        Ok(_) => {
                            log.push(json!({"op": "update", "target": t, "new_embedding": new_emb.is_some(), "payload": payload.is_some()}));
                            let carried = new_emb.clone().or(frames[t].1.clone());
                            if new_emb.is_none() && frames[t].1.is_some() { rep.count("updates_carrying_embedding"); }
                            frames[t].0 = FrameStatus::Superseded;
                            frames.push((FrameStatus::Active, carried));
                        }
                        Err(e) => { rep.violation("C14:update-failed", e.to_string(), detail(&log)); failed = true; }
                    }
                } else {
                    match mem.delete_frame(t as u64) {
                        Ok(_) => { log.push(json!({"op": "delete", "target": t})); frames[t].0 = FrameStatus::Deleted; rep.count("deletes"); }
                        Err(e) => { rep.violation("C14:delete-failed", e.to_string(), detail(&log)); failed = true; }
                    }
                }
                if let Err(e) = mem.commit() { rep.violation(&format!("C14:commit-failed:{}:{config}", super::hist::err_kind(&e)), format!("commit after update/delete failed: {e}"), detail(&log)); failed = true; }
                if past_switch(&frames) { commits_past_switch += 1; }
            }
        }
        let _ = mem.end_batch();
        if failed { continue; }
        if let Err(e) = mem.commit() { rep.violation("C14:commit-failed", e.to_string(), detail(&log)); continue; }
        if past_switch(&frames) { commits_past_switch += 1; }
        if commits_past_switch > 1 { rep.count("histories_with_an_index_rebuild_past_the_switch_before_the_first_check"); }
        let mut handle = Some(mem);
        for stage in ["after-commit", "after-crash-replay", "after-reopen", "after-doctor-vec-rebuild", "after-vacuum", "after-reopen-2"] {
            match stage {
                "after-crash-replay" => {
                    // acknowledged, un-committed operations (embedded puts, a plain put, a delete) and then a crash: the file
                    // as it is on disk is reopened and Memvid::open has to replay the log next to the committed vectors
                    let Some(m) = handle.as_mut() else { break };
                    let mut ok = true;
                    for j in 0..rng.usize(1, 3) {
                        let e = next_emb(rng);
                        let mut o = PutOptions::default();
                        o.timestamp = Some(1_800_000_000 + j as i64);
                        o.instant_index = false;
                        o.auto_tag = false;
                        o.extract_triplets = false;
                        match m.put_with_embedding_and_options(format!("pending doc {j}").as_bytes(), e.clone(), o) {
                            Ok(_) => { log.push(json!({"op": "put-pending", "emb": true})); frames.push((FrameStatus::Active, Some(e))); }
                            Err(err) => { rep.violation("C14:put-failed", err.to_string(), detail(&log)); ok = false; break; }
                        }
                    }
                    if !ok { break; }
                    if rng.chance(1, 2) {
                        let mut o = PutOptions::default();
                        o.instant_index = false;
                        o.auto_tag = false;
                        o.extract_triplets = false;
                        if m.put_bytes_with_options(b"pending plain", o).is_ok() { log.push(json!({"op": "put-pending", "emb": false})); frames.push((FrameStatus::Active, None)); }
                    }
                    if rng.chance(1, 2) {
                        // a record larger than the 64 KiB log: the log region grows (everything behind it, the committed vector
                        // index included, is moved) and the crash comes before the next commit
                        let e = next_emb(rng);
                        let mut big = rng.bytes(70_000);
                        big[0] = 0xFF;
                        let mut o = PutOptions::default();
                        o.instant_index = false;
                        o.auto_tag = false;
                        o.extract_triplets = false;
                        match m.put_with_embedding_and_options(&big, e.clone(), o) {
                            Ok(_) => { log.push(json!({"op": "put-pending-growing-the-log", "emb": true})); frames.push((FrameStatus::Active, Some(e))); rep.count("crash_replays_after_log_growth"); }
                            Err(err) => { rep.violation("C14:put-failed", err.to_string(), detail(&log)); break; }
                        }
                    }
                    let image = path.with_extension("crashimg");
                    if std::fs::copy(&path, &image).is_err() { rep.inconclusive(json!({"reason": "cannot copy the file for a crash image"})); break; }
                    handle = None; // the drop-time commit goes to the old inode and is discarded
                    if std::fs::rename(&image, &path).is_err() { rep.inconclusive(json!({"reason": "cannot put the crash image in place"})); break; }
                    match Memvid::open(&path) {
                        Ok(m2) => { handle = Some(m2); rep.count("checks_after_crash_replay"); }
                        Err(e) => { rep.violation("C14:open-failed:after-crash-replay", e.to_string(), detail(&log)); break; }
                    }
                }
                "after-reopen" | "after-reopen-2" => { handle = None; match Memvid::open(&path) { Ok(m) => { handle = Some(m); rep.count("checks_after_reopen"); } Err(e) => { rep.violation(&format!("C14:open-failed:{stage}"), e.to_string(), detail(&log)); break; } } }
                "after-doctor-vec-rebuild" => {
                    handle = None;
                    let o = DoctorOptions { rebuild_time_index: false, rebuild_lex_index: false, rebuild_vec_index: true, vacuum: false, dry_run: false, quiet: true };
                    if let Err(e) = Memvid::doctor(&path, o) { rep.violation("C14:doctor-failed", e.to_string(), detail(&log)); break; }
                    match Memvid::open(&path) { Ok(m) => { handle = Some(m); rep.count("checks_after_doctor"); } Err(e) => { rep.violation("C14:open-failed:after-doctor", e.to_string(), detail(&log)); break; } }
                }
                "after-vacuum" => { if let Some(m) = handle.as_mut() { if let Err(e) = m.vacuum() { rep.violation("C14:vacuum-failed", e.to_string(), detail(&log)); break; } } }
                _ => {}
            }
            let Some(mem) = handle.as_mut() else { break };
            let expected: BTreeMap<u64, Vec<f32>> = frames.iter().enumerate().filter(|(_, f)| f.0 == FrameStatus::Active && f.1.is_some()).map(|(i, f)| (i as u64, f.1.clone().unwrap())).collect();
            rep.count("membership_checks");
            let size_cls = if expected.len() >= 1000 { "at-or-above-1000" } else { "below-1000" };
            // Behind the representation switch the HNSW index can neither enumerate nor return its
            // vectors; what matters for the diagnosis is whether an index rebuild (doctor, vacuum,
            // any later commit) has happened yet, not which stage it was.
            let stage = if config != "default" && expected.len() >= 1000 {
                if matches!(stage, "after-commit") && commits_past_switch <= 1 { "before-index-rebuild" } else { "after-index-rebuild" }
            } else { stage };
            // (1) everything findable = exactly E
            if !expected.is_empty() {
                let probe = expected.values().next().unwrap().clone();
                let k = frames.len() + 10;
                let res = std::panic::catch_unwind(std::panic::AssertUnwindSafe(|| mem.search_vec(&probe, k)));
                let mut panicked = false;
                let res = match res {
                    Ok(r) => r,
                    Err(p) => {
                        let msg = p.downcast_ref::<String>().cloned().or_else(|| p.downcast_ref::<&str>().map(|s| s.to_string())).unwrap_or_default();
                        rep.violation(&format!("C14:search-vec-panicked:k-above-50:{size_cls}:{config}"), format!("search_vec(q, {k}) panicked: {msg}"), detail(&log));
                        // keep checking the rest of this stage (self-queries use k = 10)
                        panicked = true;
                        Ok(Vec::new())
                    }
                };
                match res {
                    Ok(_) if panicked => {}
                    Ok(h) => {
                        let got: BTreeSet<u64> = h.iter().map(|x| x.frame_id).collect();
                        let want: BTreeSet<u64> = expected.keys().copied().collect();
                        if got != want {
                            let extra: Vec<&u64> = got.difference(&want).take(5).collect();
                            let missing: Vec<&u64> = want.difference(&got).take(5).collect();
                            let why = if !extra.is_empty() { let st = frames.get(*extra[0] as usize).map(|f| format!("{:?}", f.0)).unwrap_or_default(); format!("inactive-or-unembedded-frame-findable:{st}") } else { "embedded-frame-not-findable".to_string() };
                            rep.violation(&format!("C14:{why}:{stage}:{size_cls}:{config}"), format!("findable {} frames, expected {}; extra {extra:?} missing {missing:?}", got.len(), want.len()), detail(&log));
                        }
                    }
                    Err(e) => { rep.violation(&format!("C14:search-error:{stage}:{config}"), e.to_string(), detail(&log)); break; }
                }
            }
            // (2) stats
            if let Ok(s) = mem.stats() {
                if s.vector_count != expected.len() as u64 {
                    rep.violation(&format!("C14:vector-count-differs:{stage}:{size_cls}:{config}"), format!("stats().vector_count = {}, active embedded frames = {}", s.vector_count, expected.len()), detail(&log));
                }
            }
            // (3) per-frame embedding and self query (sampled when large)
            let ids: Vec<u64> = (0..frames.len() as u64).collect();
            let sample: Vec<u64> = if ids.len() <= 60 { ids } else { (0..60).map(|_| rng.pick(&ids)).collect() };
            // one witness per kind and stage; later stages are still checked (doctor and vacuum are
            // where an index that cannot enumerate its vectors loses them)
            let mut reported: BTreeSet<String> = BTreeSet::new();
            for id in sample {
                rep.count("embedding_reads");
                let want = expected.get(&id);
                match (mem.frame_embedding(id), want) {
                    (Ok(Some(g)), Some(w)) if &g == w => {}
                    (Ok(None), None) => {}
                    (Ok(g), w) => {
                        let why = match (&g, w) { (None, Some(_)) => "embedding-missing", (Some(_), None) => "embedding-for-inactive-or-unembedded-frame", _ => "embedding-differs" };
                        if reported.insert(why.to_string()) {
                            rep.violation(&format!("C14:{why}:{stage}:{size_cls}:{config}"), format!("frame_embedding({id}) = {g:?}, expected {w:?} (status {:?})", frames[id as usize].0), detail(&log));
                        }
                    }
                    (Err(e), _) => { if reported.insert("err".into()) { rep.violation(&format!("C14:frame-embedding-error:{stage}:{config}"), e.to_string(), detail(&log)); } }
                }
                if let Some(w) = want {
                    rep.count("self_queries");
                    match mem.search_vec(w, 10) {
                        Ok(h) if h.iter().any(|x| x.frame_id == id && x.distance <= 1e-6) => {}
                        Ok(h) => { if reported.insert("self".into()) { rep.violation(&format!("C14:self-query-misses-frame:{stage}:{size_cls}:{config}"), format!("search_vec(embedding of {id}, 10) returns {:?}", h.iter().map(|x| (x.frame_id, x.distance)).collect::<Vec<_>>()), detail(&log)); } }
                        Err(e) => { if reported.insert("serr".into()) { rep.violation(&format!("C14:search-error:{stage}:{config}"), e.to_string(), detail(&log)); } }
                    }
                }
            }
        }
        rep.nontrivial(h64(format!("{target}:{}:{config}", log.len()).as_bytes()));
        rep.sample(json!({"config": config, "target_vectors": target, "ops": log.len(), "frames": frames.len()}));
        rep.count("histories");
        let _ = std::fs::remove_dir_all(&dir);
    }
}
