//! C15 — timeline completeness, order and filters, against the reference model.

use std::collections::HashSet;
use std::num::NonZeroU64;

use memvid_core::types::{DoctorOptions, FrameRole, FrameStatus, TimelineQuery};
use serde_json::{Value, json};

use super::hist::{HistCfg, exec_op, gen_put};
use super::world::World;
use crate::{Report, Rng, h64};

fn tl(w: &mut World<'_>, since: Option<i64>, until: Option<i64>, limit: Option<u64>, reverse: bool) -> Result<Vec<(u64, i64)>, String> {
    let q = TimelineQuery { limit: limit.and_then(NonZeroU64::new), since, until, reverse };
    w.mem().timeline(q).map(|v| v.iter().map(|e| (e.frame_id, e.timestamp)).collect()).map_err(|e| e.to_string())
}

/// Run all timeline checks in the current state; `ctx` names the state for the finding key.
pub fn check_timeline(w: &mut World<'_>, ctx: &str) -> bool {
    if w.failed || w.mem.is_none() { return !w.failed; }
    let fwd = match tl(w, None, None, None, false) {
        Ok(v) => v,
        Err(e) => { w.violation(&format!("C15:timeline-error:{ctx}"), format!("timeline failed: {e}")); return false; }
    };
    w.rep.count("timeline_checks");
    // membership
    let mut seen = HashSet::new();
    for (id, ts) in &fwd {
        if !seen.insert(*id) {
            w.violation(&format!("C15:duplicate-entry:{ctx}"), format!("frame {id} listed twice"));
            return false;
        }
        match w.model.frames.get(*id as usize) {
            Some(m) if m.status == FrameStatus::Active => {
                if m.timestamp != *ts {
                    w.violation(&format!("C15:wrong-timestamp:{ctx}"), format!("entry for frame {id} carries timestamp {ts}, frame has {}", m.timestamp));
                    return false;
                }
            }
            Some(m) => { w.violation(&format!("C15:inactive-frame-listed:{ctx}"), format!("frame {id} is {:?} but listed", m.status)); return false; }
            None => { w.violation(&format!("C15:unknown-frame-listed:{ctx}"), format!("frame {id} does not exist")); return false; }
        }
    }
    let docs: Vec<u64> = w.model.frames.iter().filter(|m| m.status == FrameStatus::Active && m.role == FrameRole::Document && !m.is_chunk).map(|m| m.id).collect();
    if let Some(missing) = docs.iter().find(|id| !seen.contains(id)) {
        w.violation(&format!("C15:document-missing:{ctx}"), format!("active document frame {missing} is not in the unlimited timeline ({} entries)", fwd.len()));
        return false;
    }
    // order
    for pair in fwd.windows(2) {
        let (a, b) = (pair[0], pair[1]);
        if (a.1, a.0) > (b.1, b.0) {
            let role = |id: u64| w.model.frames.get(id as usize).map(|m| format!("{:?}", m.role)).unwrap_or_default();
            let cls = if role(a.0) == "ExtractedImage" || role(b.0) == "ExtractedImage" { "extracted-image-appended".to_string() } else { format!("{}-{}", role(a.0), role(b.0)) };
            w.violation(&format!("C15:order:{cls}:{ctx}"), format!("entry (frame {}, ts {}) precedes (frame {}, ts {})", a.0, a.1, b.0, b.1));
            return false;
        }
    }
    // reverse
    match tl(w, None, None, None, true) {
        Ok(rev) => {
            let mut expect = fwd.clone();
            expect.reverse();
            if rev != expect {
                w.violation(&format!("C15:reverse-differs:{ctx}"), format!("reverse timeline is not the exact reverse: {} vs {} entries", rev.len(), expect.len()));
                return false;
            }
        }
        Err(e) => { w.violation(&format!("C15:timeline-error:{ctx}"), e); return false; }
    }
    // filters and limits
    let stamps: Vec<i64> = fwd.iter().map(|e| e.1).collect();
    for _ in 0..4 {
        let pick = |w: &mut World<'_>| -> Option<i64> {
            match w.rng.below(5) {
                0 => None,
                1 if !stamps.is_empty() => Some(w.rng.pick(&stamps)),
                2 if !stamps.is_empty() => Some(w.rng.pick(&stamps).saturating_add(w.rng.range(-1, 1))),
                3 => Some(w.rng.pick(&[i64::MIN, i64::MAX, 0, -1])),
                _ => Some(1_600_000_000 + w.rng.range(-600, 600)),
            }
        };
        let since = pick(w);
        let until = pick(w);
        let reverse = w.rng.chance(1, 2);
        let mut expect: Vec<(u64, i64)> = fwd.iter().copied().filter(|e| since.is_none_or(|s| e.1 >= s) && until.is_none_or(|u| e.1 <= u)).collect();
        if reverse { expect.reverse(); }
        match tl(w, since, until, None, reverse) {
            Ok(got) => {
                w.rep.count("filter_checks");
                if got != expect {
                    w.violation(&format!("C15:filter-differs:{ctx}"), format!("since={since:?} until={until:?} reverse={reverse}: got {} entries, unfiltered restricted to the range has {}", got.len(), expect.len()));
                    return false;
                }
            }
            Err(e) => { w.violation(&format!("C15:timeline-error:{ctx}"), e); return false; }
        }
        let n = w.rng.below(expect.len() as u64 + 3) + 1;
        match tl(w, since, until, Some(n), reverse) {
            Ok(got) => {
                w.rep.count("limit_checks");
                let want: Vec<(u64, i64)> = expect.iter().copied().take(n as usize).collect();
                if got != want {
                    w.violation(&format!("C15:limit-not-a-prefix:{ctx}"), format!("limit {n}: got {got:?}, prefix of unlimited is {want:?}"));
                    return false;
                }
            }
            Err(e) => { w.violation(&format!("C15:timeline-error:{ctx}"), e); return false; }
        }
    }
    true
}

pub fn run(rep: &mut Report, scratch: &std::path::Path, rng: &mut Rng, histories: u64, ops: usize) {
    for c in ["timeline_checks", "filter_checks", "limit_checks", "extracted_image_puts", "checks_after_reopen"] { rep.require(c); }
    let cfg = HistCfg { ops, monitors: vec!["c01".into()], small_only: true, with_embeddings: false, maintenance: false, ts_mode: 1, check_every: 1000 };
    for h in 0..histories {
        let dir = scratch.join(format!("tl{h}"));
        let _ = std::fs::create_dir_all(&dir);
        let mut w = World::new(&dir, "mem.mv2", rng.fork(), rep);
        if exec_op(&mut w, &cfg, &json!({"op": "create"})) {
            for _ in 0..ops {
                if w.failed { break; }
                w.rep.eval();
                let roll = w.rng.below(100);
                let docs: Vec<u64> = w.model.frames.iter().filter(|m| m.status == FrameStatus::Active && !m.is_chunk && !w.has_pending_op_on(m.id)).map(|m| m.id).collect();
                let op: Value = if roll < 45 || docs.is_empty() {
                    let mut p = gen_put(&mut w, &cfg);
                    if w.rng.chance(1, 6) {
                        // a chunked document
                        let token = p["token"].as_str().unwrap_or("").to_string();
                        let n = w.rng.usize(2600, 4000);
                        p["text"] = json!(super::hist::text_of(&mut w.rng, n, &token));
                    }
                    p
                } else if roll < 58 {
                    let mut p = gen_put(&mut w, &cfg);
                    p["role"] = json!("ExtractedImage");
                    p["parent"] = json!(w.rng.pick(&docs));
                    w.rep.count("extracted_image_puts");
                    p
                } else if roll < 66 {
                    json!({"op": "delete", "target": w.rng.pick(&docs)})
                } else if roll < 72 {
                    let token = w.next_token();
                    json!({"op": "update", "target": w.rng.pick(&docs), "gen": w.rng.next(), "token": token})
                } else if roll < 88 {
                    json!({"op": "commit"})
                } else if roll < 95 {
                    json!({"op": "reopen"})
                } else {
                    json!({"op": "doctor", "time": true, "lex": w.rng.chance(1, 2), "vec": false, "vacuum": w.rng.chance(1, 3)})
                };
                let name = op["op"].as_str().unwrap_or("").to_string();
                if !exec_op(&mut w, &cfg, &op) { break; }
                if matches!(name.as_str(), "commit" | "reopen" | "doctor") {
                    if name == "reopen" { w.rep.count("checks_after_reopen"); }
                    let ctx = match name.as_str() { "commit" => "after-commit", "reopen" => "after-reopen", _ => "after-doctor" };
                    if !check_timeline(&mut w, ctx) { break; }
                }
            }
            if !w.failed && exec_op(&mut w, &cfg, &json!({"op": "commit"})) && check_timeline(&mut w, "after-commit") {
                // time index absent: commit_skip_indexes leaves the TOC without one
                let p = gen_put(&mut w, &cfg);
                if exec_op(&mut w, &cfg, &p) {
                    w.log.push(json!({"op": "commit_skip_indexes"}));
                    if w.mem().commit_skip_indexes().is_ok() && w.sync("after commit_skip_indexes") {
                        w.rep.count("checks_without_time_index");
                        let _ = check_timeline(&mut w, "time-index-absent");
                    }
                }
            }
        }
        let fp = h64(serde_json::to_string(&w.log).unwrap_or_default().as_bytes());
        if w.rep.samples.len() < 2 {
            let head: Vec<Value> = w.log.iter().take(6).cloned().collect();
            w.rep.sample(json!({"history_head": head, "ops": w.log.len()}));
        }
        w.mem = None;
        rep.nontrivial(fp);
        rep.count("histories");
        let _ = std::fs::remove_dir_all(&dir);
    }
    let _ = DoctorOptions::default();
}
