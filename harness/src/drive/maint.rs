//! C08 (deleted / superseded frames disappear), C18 (read-only access), C40 (bulk-ingestion
//! equivalence), C42 (vacuum keeps content).

use std::collections::BTreeSet;

use memvid_core::types::{AskMode, AskRequest, DoctorOptions, FrameStatus, PutManyOpts, TimelineQuery, VerificationStatus};
use memvid_core::{Memvid, PutOptions};
use serde_json::{Value, json};

use super::hist::{HistCfg, exec_op, gen_put, text_of};
use super::search::{NoEmbedder, paginate, request};
use super::world::World;
use crate::{Report, Rng, h64, hex_digest};

fn cfg() -> HistCfg {
    HistCfg { ops: 0, monitors: vec!["c01".into()], small_only: true, with_embeddings: false, maintenance: false, ts_mode: 0, check_every: 1000 }
}

fn emb_for(n: u64) -> Vec<f32> {
    vec![n as f32 * 3.0 + 1.0, (n % 11) as f32, 0.5, 1.0]
}

// ------------------------------------------------------------------------------------ C08

struct Gone {
    old: u64,
    new: Option<u64>,
    token: String,
    emb: Option<Vec<f32>>,
    uri: String,
}

fn check_gone(w: &mut World<'_>, gone: &[Gone], stage: &str) -> bool {
    for g in gone {
        w.rep.count("old_versions_checked");
        let how = if g.new.is_some() { "superseded" } else { "deleted" };
        // lexical, with and without the pre-filter
        for no_sketch in [false, true] {
            let mut r = request(&g.token, 50);
            r.no_sketch = no_sketch;
            if let Ok((hits, _, _)) = paginate(w.mem(), &r, 50) {
                if hits.iter().any(|h| h.0 == g.old) {
                    w.violation(&format!("C08:{how}-frame-returned:search:{stage}"), format!("search({:?}, no_sketch={no_sketch}) returns frame {} which is {how}", g.token, g.old));
                    return false;
                }
            }
        }
        // vector paths
        if let Some(e) = &g.emb {
            let k = w.model.frames.len() + 5;
            if let Ok(h) = w.mem().search_vec(e, k) {
                if h.iter().any(|x| x.frame_id == g.old) { w.violation(&format!("C08:{how}-frame-returned:search_vec:{stage}"), format!("search_vec returns frame {} which is {how}", g.old)); return false; }
            }
            if let Ok(r) = w.mem().vec_search_with_embedding(&g.token, e, k, 80, None) {
                if r.hits.iter().any(|x| x.frame_id == g.old) { w.violation(&format!("C08:{how}-frame-returned:vec_search_with_embedding:{stage}"), format!("vector search returns frame {} which is {how}", g.old)); return false; }
            }
            if let Ok(r) = w.mem().search_adaptive(&g.token, e, memvid_core::types::adaptive::AdaptiveConfig::default(), 80, None) {
                if r.results.iter().any(|x| x.frame_id == g.old) { w.violation(&format!("C08:{how}-frame-returned:search_adaptive:{stage}"), format!("adaptive search returns frame {} which is {how}", g.old)); return false; }
            }
        }
        // ask (lexical, context only)
        let ar = AskRequest { question: g.token.clone(), top_k: 20, snippet_chars: 80, uri: None, scope: None, cursor: None, start: None, end: None, context_only: true, mode: AskMode::Lex, as_of_frame: None, as_of_ts: None, adaptive: None, acl_context: None, acl_enforcement_mode: Default::default() };
        if let Ok(a) = w.mem().ask(ar, None::<&NoEmbedder>) {
            let named = a.retrieval.hits.iter().map(|h| h.frame_id).chain(a.citations.iter().map(|c| c.frame_id)).chain(a.context_fragments.iter().map(|c| c.frame_id)).any(|id| id == g.old);
            if named { w.violation(&format!("C08:{how}-frame-returned:ask:{stage}"), format!("ask names frame {} which is {how}", g.old)); return false; }
        }
        // timeline
        if let Ok(t) = w.mem().timeline(TimelineQuery { limit: None, since: None, until: None, reverse: false }) {
            if t.iter().any(|e| e.frame_id == g.old) { w.violation(&format!("C08:{how}-frame-returned:timeline:{stage}"), format!("timeline lists frame {} which is {how}", g.old)); return false; }
        }
        // active-URI lookup
        match (w.mem().frame_by_uri(&g.uri), g.new) {
            (Ok(f), Some(n)) => {
                // the newest active version of that URI
                let newest = w.model.frames.iter().filter(|m| m.uri == g.uri && m.status == FrameStatus::Active).map(|m| m.id).max();
                if Some(f.id) != newest { w.violation(&format!("C08:frame-by-uri-not-newest:{stage}"), format!("frame_by_uri({:?}) returns frame {}, newest active version is {newest:?} (update produced {n})", g.uri, f.id)); return false; }
            }
            (Ok(f), None) => {
                // another live frame may carry the same URI (separate puts may share one): it must be found
                let newest = w.model.frames.iter().filter(|m| m.uri == g.uri && m.status == FrameStatus::Active).map(|m| m.id).max();
                if let Some(n) = newest {
                    w.rep.count("uri_lookups_with_another_live_frame");
                    if f.id != n { w.violation(&format!("C08:frame-by-uri-not-newest:{stage}"), format!("frame_by_uri({:?}) returns frame {} ({:?}); frame {} was deleted and the newest active frame with that URI is {n}", g.uri, f.id, f.status, g.old)); return false; }
                    continue;
                }
                // frame_by_uri deliberately falls back to an inactive frame when the URI has no active
                // version; that is not an "active" lookup as long as the frame says it is deleted
                if f.id == g.old && f.status == FrameStatus::Active { w.violation(&format!("C08:deleted-frame-returned-as-active:frame_by_uri:{stage}"), format!("frame_by_uri({:?}) returns frame {} as Active although it was deleted", g.uri, g.old)); return false; }
                if f.id == g.old { w.rep.count("frame_by_uri_fell_back_to_deleted_frame"); }
            }
            (Err(_), Some(n)) => { w.violation(&format!("C08:frame-by-uri-fails-for-updated-frame:{stage}"), format!("frame_by_uri({:?}) fails although version {n} is active", g.uri)); return false; }
            (Err(_), None) => {}
        }
        // links and inheritance
        if let (Some(n), Ok(old), ) = (g.new, w.mem().frame_by_id(g.old)) {
            if old.status != FrameStatus::Superseded || old.superseded_by != Some(n) {
                w.violation(&format!("C08:old-version-not-marked-superseded:{stage}"), format!("frame {} has status {:?}, superseded_by {:?}; expected Superseded by {n}", g.old, old.status, old.superseded_by));
                return false;
            }
        }
    }
    true
}

pub fn c08(rep: &mut Report, scratch: &std::path::Path, rng: &mut Rng, histories: u64) {
    for c in ["old_versions_checked", "inheritance_checks", "updates_without_payload", "updates_with_payload", "deletes_acknowledged", "stages_after_reopen"] { rep.require(c); }
    let cfg = cfg();
    for h in 0..histories {
        let dir = scratch.join(format!("g{h}"));
        let _ = std::fs::create_dir_all(&dir);
        let mut w = World::new(&dir, "mem.mv2", rng.fork(), rep);
        let mut gone: Vec<Gone> = Vec::new();
        if exec_op(&mut w, &cfg, &json!({"op": "create"})) {
            let n = w.rng.usize(4, 12);
            for i in 0..n {
                let token = format!("gone{}x{}q", h, i);
                let len = if w.rng.chance(1, 6) { w.rng.usize(2600, 3200) } else { w.rng.usize(30, 300) };
                let text = text_of(&mut w.rng, len, &token);
                // a quarter of the documents re-use the URI of an earlier document (two live frames under one URI)
                let uri_n = if i > 0 && w.rng.chance(1, 4) { w.rep.count("puts_sharing_a_uri"); w.rng.usize(0, i - 1) } else { i };
                let op = json!({"op": "put", "text": text, "token": token, "uri": format!("mv2://c08/Doc{uri_n}"), "ts": 1_700_000_000 + i as i64 * 100, "instant": w.rng.chance(1, 3),
                    "title": format!("Title {i}"), "track": if w.rng.chance(1, 2) { Some("main") } else { None }, "kind": if w.rng.chance(1, 2) { Some("note") } else { None },
                    "tags": if w.rng.chance(1, 2) { vec![format!("t{i}")] } else { vec![] }, "labels": if w.rng.chance(1, 2) { vec!["lbl"] } else { vec![] },
                    "extra": {"k": format!("v{i}")}, "emb": if w.rng.chance(2, 3) { Some(emb_for(h * 100 + i as u64)) } else { None }, "triplets": false});
                if !exec_op(&mut w, &cfg, &op) { break; }
            }
            let _ = exec_op(&mut w, &cfg, &json!({"op": "commit"}));
            let docs: Vec<u64> = w.model.frames.iter().filter(|m| !m.is_chunk && m.status == FrameStatus::Active).map(|m| m.id).collect();
            let mut targets = docs.clone();
            let k = w.rng.usize(1, targets.len().max(1));
            let mut inherit: Vec<(u64, u64, bool, Option<String>)> = Vec::new();
            for _ in 0..k {
                if targets.is_empty() || w.failed { break; }
                w.rep.eval();
                let idx = w.rng.usize(0, targets.len() - 1);
                let t = targets.remove(idx);
                let m = w.model.frames[t as usize].clone();
                if w.rng.chance(1, 3) {
                    if exec_op(&mut w, &cfg, &json!({"op": "delete", "target": t})) {
                        gone.push(Gone { old: t, new: None, token: m.token.clone(), emb: m.embedding.clone(), uri: m.uri.clone() });
                    }
                } else {
                    let with_payload = w.rng.chance(1, 2);
                    let title = if w.rng.chance(1, 2) { Some(format!("New title {t}")) } else { None };
                    let new_emb = if w.rng.chance(1, 3) { Some(emb_for(9000 + h * 100 + t)) } else { None };
                    let predicted = w.mem().next_frame_id();
                    let op = json!({"op": "update", "target": t, "gen": if with_payload { Some(w.rng.next()) } else { None }, "token": format!("newver{h}x{t}q"), "title": title, "emb": new_emb});
                    if exec_op(&mut w, &cfg, &op) {
                        gone.push(Gone { old: t, new: Some(predicted), token: m.token.clone(), emb: m.embedding.clone(), uri: m.uri.clone() });
                        inherit.push((t, predicted, with_payload, title));
                    }
                }
            }
            for stage in ["after-commit", "after-reopen"] {
                if w.failed { break; }
                let op = if stage == "after-commit" { json!({"op": "commit"}) } else { json!({"op": "reopen"}) };
                if !exec_op(&mut w, &cfg, &op) || !w.check_all(stage, false) { break; }
                if stage == "after-reopen" { w.rep.count("stages_after_reopen"); }
                if !check_gone(&mut w, &gone, stage) { break; }
                // inheritance of unspecified fields
                for (old, new, with_payload, title) in &inherit {
                    let (Ok(o), Ok(n)) = (w.mem().frame_by_id(*old), w.mem().frame_by_id(*new)) else { continue };
                    w.rep.count("inheritance_checks");
                    let mut diffs: Vec<String> = Vec::new();
                    let want_title = title.clone().or(o.title.clone());
                    if n.title != want_title { diffs.push(format!("title {:?} != {:?}", n.title, want_title)); }
                    if n.track != o.track { diffs.push(format!("track {:?} != {:?}", n.track, o.track)); }
                    if n.kind != o.kind { diffs.push(format!("kind {:?} != {:?}", n.kind, o.kind)); }
                    if n.timestamp != o.timestamp { diffs.push(format!("timestamp {} != {}", n.timestamp, o.timestamp)); }
                    if n.uri != o.uri { diffs.push(format!("uri {:?} != {:?}", n.uri, o.uri)); }
                    if n.extra_metadata.get("k") != o.extra_metadata.get("k") { diffs.push(format!("extra_metadata[k] {:?} != {:?}", n.extra_metadata.get("k"), o.extra_metadata.get("k"))); }
                    // auto-tagging may add tags/labels for a new payload; nothing the old version had may be lost
                    if !o.tags.iter().all(|t| n.tags.contains(t)) || (!with_payload && n.tags != o.tags) { diffs.push(format!("tags {:?} vs {:?}", n.tags, o.tags)); }
                    if !o.labels.iter().all(|t| n.labels.contains(t)) || (!with_payload && n.labels != o.labels) { diffs.push(format!("labels {:?} vs {:?}", n.labels, o.labels)); }
                    if !diffs.is_empty() {
                        let field = diffs[0].split(' ').next().unwrap_or("field").to_string();
                        w.violation(&format!("C08:unspecified-field-not-inherited:{field}:{stage}"), format!("update {old} -> {new} (payload given: {with_payload}): {diffs:?}"));
                        break;
                    }
                }
            }
        }
        let fp = h64(serde_json::to_string(&w.log).unwrap_or_default().as_bytes());
        if w.rep.samples.len() < 2 { let head: Vec<Value> = w.log.iter().rev().take(5).rev().map(|o| { let mut o = o.clone(); if o.get("text").is_some() { o["text"] = json!("…"); } o }).collect(); w.rep.sample(json!({"history_tail": head, "old_versions": gone.len()})); }
        w.mem = None;
        rep.nontrivial(fp);
        rep.count("histories");
        let _ = std::fs::remove_dir_all(&dir);
    }
}

// ------------------------------------------------------------------------------------ C42

fn observe(w: &mut World<'_>, tokens: &[String]) -> (Vec<(String, BTreeSet<u64>)>, Vec<(u64, i64)>) {
    let mut s = Vec::new();
    for t in tokens {
        let mut r = request(t, 50);
        r.no_sketch = true;
        let set: BTreeSet<u64> = paginate(w.mem(), &r, 50).map(|x| x.0.iter().map(|h| h.0).collect()).unwrap_or_default();
        s.push((t.clone(), set));
    }
    let tl = w.mem().timeline(TimelineQuery { limit: None, since: None, until: None, reverse: false }).map(|v| v.iter().map(|e| (e.frame_id, e.timestamp)).collect()).unwrap_or_default();
    (s, tl)
}

pub fn c42(rep: &mut Report, scratch: &std::path::Path, rng: &mut Rng, histories: u64) {
    for c in ["vacuums", "frames_compared", "whole_payloads_compared", "searches_compared", "verify_after_vacuum", "vacuum_via_doctor"] { rep.require(c); }
    let cfg = HistCfg { monitors: vec!["c01".into(), "c07".into()], ..cfg() };
    for h in 0..histories {
        let dir = scratch.join(format!("v{h}"));
        let _ = std::fs::create_dir_all(&dir);
        let mut w = World::new(&dir, "mem.mv2", rng.fork(), rep);
        if exec_op(&mut w, &cfg, &json!({"op": "create"})) {
            let n = w.rng.usize(5, 14);
            let mut tokens = Vec::new();
            for _ in 0..n {
                let p = gen_put(&mut w, &cfg);
                tokens.push(p["token"].as_str().unwrap_or("").to_string());
                if !exec_op(&mut w, &cfg, &p) { break; }
            }
            let _ = exec_op(&mut w, &cfg, &json!({"op": "commit"}));
            // deletes and updates (payload-reusing ones included)
            for _ in 0..w.rng.usize(2, 6) {
                w.rep.eval();
                let active: Vec<u64> = w.model.frames.iter().filter(|m| m.status == FrameStatus::Active && !m.is_chunk && !w.has_pending_op_on(m.id)).map(|m| m.id).collect();
                if active.is_empty() || w.failed { break; }
                let t = w.rng.pick(&active);
                // payload-reusing updates of *chunked* documents lose their content before any vacuum
                // (known C07 finding); here they would only end the history before the vacuum is reached
                let chunked = !w.model.frames[t as usize].chunk_children.is_empty();
                let op = match w.rng.below(3) {
                    0 => json!({"op": "delete", "target": t}),
                    1 if !chunked => json!({"op": "update", "target": t, "gen": null, "token": w.next_token(), "title": "reused payload"}),
                    _ => json!({"op": "update", "target": t, "gen": w.rng.next(), "token": w.next_token()}),
                };
                if !exec_op(&mut w, &cfg, &op) { break; }
            }
            if !w.failed && exec_op(&mut w, &cfg, &json!({"op": "commit"})) && w.check_all("before vacuum", true) {
                let before = observe(&mut w, &tokens);
                let via_doctor = w.rng.chance(1, 3);
                let ok = if via_doctor {
                    w.rep.count("vacuum_via_doctor");
                    exec_op(&mut w, &cfg, &json!({"op": "doctor", "time": false, "lex": false, "vec": false, "vacuum": true}))
                } else {
                    exec_op(&mut w, &cfg, &json!({"op": "vacuum"}))
                };
                let how = if via_doctor { "doctor-vacuum" } else { "vacuum" };
                for stage in ["same-handle", "after-reopen"] {
                    if !ok || w.failed { break; }
                    if stage == "after-reopen" && !exec_op(&mut w, &cfg, &json!({"op": "reopen"})) { break; }
                    // ids, metadata, exact content, inactive stay inactive: the model comparison
                    let n_viol = w.rep.violations.len();
                    if !w.check_all(&format!("{how}, {stage}"), true) {
                        // re-key content/identity failures that appear only after vacuum as C42
                        if let Some(v) = w.rep.violations.get_mut(n_viol) { if !v.key.starts_with("C42") { v.key = format!("C42:after-{how}:{}", v.key); } }
                        break;
                    }
                    let after = observe(&mut w, &tokens);
                    w.rep.add("searches_compared", tokens.len() as u64);
                    if let Some((t, _)) = before.0.iter().zip(after.0.iter()).find(|(a, b)| a.1 != b.1).map(|(a, _)| a) {
                        let b = &before.0.iter().find(|x| &x.0 == t).unwrap().1;
                        let a = &after.0.iter().find(|x| &x.0 == t).unwrap().1;
                        w.violation(&format!("C42:search-results-changed:{how}:{stage}"), format!("search({t:?}) named frames {b:?} before and {a:?} after"));
                        break;
                    }
                    if before.1 != after.1 {
                        w.violation(&format!("C42:timeline-changed:{how}:{stage}"), format!("timeline had {} entries before and {} after", before.1.len(), after.1.len()));
                        break;
                    }
                }
                if ok && !w.failed {
                    w.mem = None;
                    match Memvid::verify(&w.path, true) {
                        Ok(r) if r.overall_status == VerificationStatus::Passed => w.rep.count("verify_after_vacuum"),
                        Ok(r) => { let failed: Vec<String> = r.checks.iter().filter(|c| c.status != VerificationStatus::Passed).map(|c| c.name.clone()).collect(); w.violation(&format!("C42:verify-not-passed:{how}"), format!("verify(deep) after {how}: {:?}, failing checks {failed:?}", r.overall_status)); }
                        Err(e) => w.violation(&format!("C42:verify-error:{how}"), e.to_string()),
                    }
                }
            }
        }
        let fp = h64(serde_json::to_string(&w.log).unwrap_or_default().as_bytes());
        if w.rep.samples.len() < 2 { let head: Vec<Value> = w.log.iter().rev().take(6).rev().cloned().collect(); w.rep.sample(json!({"history_tail": head, "frames": w.model.frames.len()})); }
        w.mem = None;
        rep.nontrivial(fp);
        rep.count("histories");
        let _ = std::fs::remove_dir_all(&dir);
    }
    let _ = DoctorOptions::default();
}

// ------------------------------------------------------------------------------------ C40

#[derive(PartialEq, Debug)]
struct Ingested {
    frames: Vec<(String, String, String, Option<u64>, String)>, // uri, status, role, parent, payload digest
    timeline: Vec<(u64, i64)>,
    searches: Vec<BTreeSet<u64>>,
    vectors: Vec<Vec<u64>>,
}

fn snapshot(mem: &mut Memvid, words: &[String], queries: &[Vec<f32>]) -> Ingested {
    let mut frames = Vec::new();
    for id in 0..mem.frame_count() as u64 {
        if let Ok(f) = mem.frame_by_id(id) {
            let p = mem.frame_canonical_payload(id).map(|b| hex_digest(&b)).unwrap_or_else(|e| format!("err:{}", super::hist::err_kind(&e)));
            frames.push((f.uri.clone().unwrap_or_default(), format!("{:?}", f.status), format!("{:?}", f.role), f.parent_id, p));
        }
    }
    let timeline = mem.timeline(TimelineQuery { limit: None, since: None, until: None, reverse: false }).map(|v| v.iter().map(|e| (e.frame_id, e.timestamp)).collect()).unwrap_or_default();
    let searches = words.iter().map(|w| { let mut r = request(w, 50); r.no_sketch = true; paginate(mem, &r, 50).map(|x| x.0.iter().map(|h| h.0).collect()).unwrap_or_default() }).collect();
    let vectors = queries.iter().map(|q| mem.search_vec(q, 5).map(|h| h.iter().map(|x| x.frame_id).collect()).unwrap_or_default()).collect();
    Ingested { frames, timeline, searches, vectors }
}

pub fn c40(rep: &mut Report, scratch: &std::path::Path, rng: &mut Rng, cases: u64) {
    for c in ["batch_runs", "skip_index_runs", "skip_index_commits", "comparisons_after_reopen"] { rep.require(c); }
    for case in 0..cases {
        rep.eval();
        let dir = scratch.join(format!("b{case}"));
        let _ = std::fs::create_dir_all(&dir);
        // the document set
        let n = rng.usize(3, 25);
        let docs: Vec<(Vec<u8>, Option<Vec<f32>>, i64, String)> = (0..n).map(|i| {
            let token = format!("bulk{case}x{i}q");
            let len = if rng.chance(1, 6) { rng.usize(2600, 3600) } else { rng.usize(20, 400) };
            let text = text_of(rng, len, &token);
            let payload = if rng.chance(1, 6) { let mut b = rng.bytes(rng.clone().usize(10, 3000)); b[0] = 0xFF; b } else { text.into_bytes() };
            (payload, if rng.chance(1, 2) { Some(emb_for(i as u64)) } else { None }, 1_700_000_000 + rng.range(-1000, 1000), format!("mv2://bulk/{i}"))
        }).collect();
        let words: Vec<String> = (0..n.min(6)).map(|i| format!("bulk{case}x{i}q")).chain(["zorvex".to_string(), "memory".to_string()]).collect();
        let queries: Vec<Vec<f32>> = (0..3).map(|i| emb_for(i * 2)).collect();
        let opts_for = |d: &(Vec<u8>, Option<Vec<f32>>, i64, String)| { let mut o = PutOptions::default(); o.timestamp = Some(d.2); o.uri = Some(d.3.clone()); o.instant_index = false; o };
        let put = |mem: &mut Memvid, d: &(Vec<u8>, Option<Vec<f32>>, i64, String)| match &d.1 { Some(e) => mem.put_with_embedding_and_options(&d.0, e.clone(), opts_for(d)), None => mem.put_bytes_with_options(&d.0, opts_for(d)) };
        // (A) plain puts + commit
        let pa = dir.join("plain.mv2");
        let reference = (|| -> Result<Ingested, String> {
            let mut m = Memvid::create(&pa).map_err(|e| e.to_string())?;
            for d in &docs { put(&mut m, d).map_err(|e| format!("plain put: {e}"))?; }
            m.commit().map_err(|e| format!("plain commit: {e}"))?;
            Ok(snapshot(&mut m, &words, &queries))
        })();
        let reference = match reference { Ok(r) => r, Err(e) => { rep.inconclusive(json!({"reason": e})); continue; } };
        // (B) batch mode
        let batch = PutManyOpts { compression_level: rng.pick(&[0, 1, 3, 11]), disable_auto_checkpoint: rng.chance(1, 2), skip_sync: rng.chance(1, 2), wal_pre_size_bytes: rng.pick(&[0u64, 0, 100_000, 1 << 20]), ..PutManyOpts::default() };
        let split = rng.usize(1, 4);
        let detail = json!({"mode": "c40", "documents": n, "batch": {"compression_level": batch.compression_level, "disable_auto_checkpoint": batch.disable_auto_checkpoint, "skip_sync": batch.skip_sync, "wal_pre_size_bytes": batch.wal_pre_size_bytes}, "skip_index_commits": split,
            "docs": docs.iter().map(|d| json!({"len": d.0.len(), "utf8": std::str::from_utf8(&d.0).is_ok(), "emb": d.1.is_some(), "ts": d.2})).collect::<Vec<_>>()});
        for variant in ["batch", "skip-indexes"] {
            let p = dir.join(format!("{variant}.mv2"));
            let built = (|| -> Result<Memvid, String> {
                let mut m = Memvid::create(&p).map_err(|e| e.to_string())?;
                if variant == "batch" {
                    m.begin_batch(batch.clone()).map_err(|e| format!("begin_batch: {e}"))?;
                    for d in &docs { put(&mut m, d).map_err(|e| format!("batch put: {e}"))?; }
                    m.end_batch().map_err(|e| format!("end_batch: {e}"))?;
                    m.commit().map_err(|e| format!("commit: {e}"))?;
                } else {
                    let per = docs.len().div_ceil(split);
                    for chunk in docs.chunks(per.max(1)) {
                        for d in chunk { put(&mut m, d).map_err(|e| format!("put: {e}"))?; }
                        m.commit_skip_indexes().map_err(|e| format!("commit_skip_indexes: {e}"))?;
                    }
                    m.finalize_indexes().map_err(|e| format!("finalize_indexes: {e}"))?;
                }
                Ok(m)
            })();
            let mut m = match built { Ok(m) => m, Err(e) => { rep.violation(&format!("C40:{variant}:ingestion-failed"), e, detail.clone()); continue; } };
            rep.count(if variant == "batch" { "batch_runs" } else { "skip_index_runs" });
            if variant != "batch" { rep.add("skip_index_commits", split as u64); }
            for stage in ["before-close", "after-reopen"] {
                if stage == "after-reopen" {
                    drop(m);
                    m = match Memvid::open(&p) { Ok(x) => x, Err(e) => { rep.violation(&format!("C40:{variant}:reopen-failed"), e.to_string(), detail.clone()); break; } };
                    rep.count("comparisons_after_reopen");
                }
                let got = snapshot(&mut m, &words, &queries);
                let what = if got.frames != reference.frames {
                    let i = got.frames.iter().zip(reference.frames.iter()).position(|(a, b)| a != b).unwrap_or(got.frames.len().min(reference.frames.len()));
                    Some(("frames", format!("{} frames vs {} with plain puts; first difference at frame {i}: {:?} vs {:?}", got.frames.len(), reference.frames.len(), got.frames.get(i), reference.frames.get(i))))
                } else if got.timeline != reference.timeline { Some(("timeline", format!("{} entries vs {}", got.timeline.len(), reference.timeline.len())))
                } else if got.searches != reference.searches { let i = got.searches.iter().zip(reference.searches.iter()).position(|(a, b)| a != b).unwrap_or(0); Some(("search", format!("search({:?}): {:?} vs {:?}", words[i], got.searches[i], reference.searches[i])))
                } else if got.vectors != reference.vectors { Some(("vector-search", format!("{:?} vs {:?}", got.vectors, reference.vectors))) } else { None };
                if let Some((kind, msg)) = what {
                    rep.violation(&format!("C40:{variant}:{kind}-differ"), format!("{stage}: {msg}"), detail.clone());
                }
            }
        }
        rep.nontrivial(h64(format!("{n}:{split}:{}", batch.compression_level).as_bytes()) ^ case);
        if case < 2 { rep.sample(detail); }
        let _ = std::fs::remove_dir_all(&dir);
    }
}

// ------------------------------------------------------------------------------------ C18

pub fn c18(rep: &mut Report, scratch: &std::path::Path, rng: &mut Rng, sessions: u64) {
    for c in ["read_only_sessions", "sessions_with_pending_records", "read_calls", "verify_calls"] { rep.require(c); }
    let cfg = cfg();
    for s in 0..sessions {
        let dir = scratch.join(format!("ro{s}"));
        let _ = std::fs::create_dir_all(&dir);
        let mut w = World::new(&dir, "mem.mv2", rng.fork(), rep);
        if exec_op(&mut w, &cfg, &json!({"op": "create"})) {
            let with_emb = w.rng.chance(1, 2);
            for _ in 0..w.rng.usize(2, 10) {
                let mut p = gen_put(&mut w, &cfg);
                if with_emb { p["emb"] = json!(emb_for(w.counter)); }
                if !exec_op(&mut w, &cfg, &p) { break; }
            }
            let _ = exec_op(&mut w, &cfg, &json!({"op": "commit"}));
            let committed = w.model.frames.len() as u64;
            let committed_frames: Vec<(String, FrameStatus)> = w.model.frames.iter().map(|m| (m.uri.clone(), m.status)).collect();
            // optionally leave records pending in the log and copy the file as it is on disk
            let pending = w.rng.chance(1, 2);
            if pending {
                for _ in 0..w.rng.usize(1, 4) { let p = gen_put(&mut w, &cfg); if !exec_op(&mut w, &cfg, &p) { break; } }
                if w.model.pending.is_empty() { /* an auto-checkpoint committed them */ } else { w.rep.count("sessions_with_pending_records"); }
            }
            let still_pending = !w.model.pending.is_empty();
            let copy = dir.join("copy.mv2");
            if w.failed || std::fs::copy(&w.path, &copy).is_err() { continue; }
            let expected_count = if still_pending { committed } else { w.model.frames.len() as u64 };
            let before = std::fs::read(&copy).unwrap_or_default();
            w.rep.eval();
            let detail_ctx = if still_pending { "with-pending-records" } else { "committed-only" };
            match Memvid::open_read_only(&copy) {
                Ok(mut ro) => {
                    w.rep.count("read_only_sessions");
                    if ro.frame_count() as u64 != expected_count {
                        w.violation(&format!("C18:read-only-sees-wrong-frame-count:{detail_ctx}"), format!("read-only handle shows {} frames, last commit has {expected_count}", ro.frame_count()));
                    } else {
                        for (id, (uri, status)) in committed_frames.iter().enumerate().take(expected_count as usize) {
                            if let Ok(f) = ro.frame_by_id(id as u64) {
                                if f.uri.as_deref() != Some(uri.as_str()) || f.status != *status { w.violation(&format!("C18:read-only-frame-differs:{detail_ctx}"), format!("frame {id}: {:?}/{:?} vs committed {uri:?}/{status:?}", f.uri, f.status)); break; }
                            }
                        }
                    }
                    let calls = w.rng.usize(5, 30);
                    for _ in 0..calls {
                        w.rep.count("read_calls");
                        let id = w.rng.below(expected_count + 1);
                        match w.rng.below(11) {
                            0 => { let _ = ro.search(request(w.rng.pick(super::hist::WORDS), 5)); }
                            1 => { let mut r = request(w.rng.pick(super::hist::WORDS), 2); r.no_sketch = true; let _ = paginate(&mut ro, &r, 2); }
                            2 => { let _ = ro.timeline(TimelineQuery { limit: None, since: None, until: None, reverse: w.rng.chance(1, 2) }); }
                            3 => { let _ = ro.frame_by_id(id); }
                            4 => { let _ = ro.frame_canonical_payload(id); }
                            5 => { if let Ok(mut b) = ro.blob_reader(id) { let mut v = Vec::new(); let _ = std::io::Read::read_to_end(&mut b, &mut v); } }
                            6 => { let _ = ro.stats(); }
                            7 => { let _ = ro.search_vec(&emb_for(id), 3); }
                            8 => { let _ = ro.frame_embedding(id); }
                            9 => { let _ = ro.frame_text_by_id(id); let _ = ro.frame_preview_by_id(id); }
                            _ => { let _ = ro.get_entity_memories("alice"); let _ = ro.memory_card_count(); }
                        }
                    }
                    drop(ro);
                }
                Err(e) => w.violation(&format!("C18:open-read-only-failed:{detail_ctx}"), e.to_string()),
            }
            if !w.failed {
                let after = std::fs::read(&copy).unwrap_or_default();
                if after != before {
                    let first = before.iter().zip(after.iter()).position(|(a, b)| a != b).unwrap_or(before.len().min(after.len()));
                    let region = if first < 4096 { "header" } else if first < 4096 + 65536 { "wal" } else { "data" };
                    w.violation(&format!("C18:read-only-session-modified-file:{region}:{detail_ctx}"), format!("file differs after a read-only session: lengths {} -> {}, first difference at byte {first}", before.len(), after.len()));
                }
            }
            if !w.failed {
                w.rep.count("verify_calls");
                let deep = w.rng.chance(1, 2);
                let _ = Memvid::verify(&copy, deep);
                let after = std::fs::read(&copy).unwrap_or_default();
                if after != before {
                    let first = before.iter().zip(after.iter()).position(|(a, b)| a != b).unwrap_or(before.len().min(after.len()));
                    let region = if first < 4096 { "header" } else if first < 4096 + 65536 { "wal" } else { "data" };
                    w.violation(&format!("C18:verify-modified-file:{region}:{detail_ctx}"), format!("file differs after verify(deep={deep}): lengths {} -> {}, first difference at byte {first}", before.len(), after.len()));
                }
            }
        }
        let fp = h64(serde_json::to_string(&w.log).unwrap_or_default().as_bytes());
        if w.rep.samples.len() < 2 { w.rep.sample(json!({"frames": w.model.frames.len(), "pending_ops_at_copy": w.model.pending.len()})); }
        w.mem = None;
        rep.nontrivial(fp);
        let _ = std::fs::remove_dir_all(&dir);
    }
}
