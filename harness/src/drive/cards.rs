//! C27(b) — the card set and the logic mesh survive commit, close and reopen unchanged.

use memvid_core::types::{EntityKind, LinkType, MeshEdge, MeshNode};
use memvid_core::{Memvid, MemoryCardBuilder};
use serde_json::{Value, json};

use crate::{Report, Rng, h64};

type Snapshot = (Vec<String>, Vec<String>, Vec<String>);

fn snapshot(mem: &Memvid) -> Snapshot {
    let cards: Vec<String> = mem.memories().cards().iter().map(|c| {
        format!("{}|{}|{}|{}|{:?}|{:?}|{:?}|{:?}|{:?}|{}|{:?}|{:?}|{}@{}|{:?}|{}", c.id, c.entity, c.slot, c.value, c.kind, c.polarity, c.version_relation, c.event_date, c.document_date,
            c.source_frame_id, c.source_uri, c.version_key, c.engine, c.engine_version, c.confidence, c.created_at)
    }).collect();
    let m = mem.logic_mesh();
    let mut nodes: Vec<String> = m.nodes.iter().map(|n| format!("{n:?}")).collect();
    let mut edges: Vec<String> = m.edges.iter().map(|e| format!("{e:?}")).collect();
    nodes.sort();
    edges.sort();
    (cards, nodes, edges)
}

pub fn c27b(rep: &mut Report, scratch: &std::path::Path, rng: &mut Rng, histories: u64) {
    for c in ["persistence_comparisons", "cards_put", "mesh_edits", "reopens"] { rep.require(c); }
    for h in 0..histories {
        let dir = scratch.join(format!("c{h}"));
        let _ = std::fs::create_dir_all(&dir);
        let path = dir.join("cards.mv2");
        let mut handle = match Memvid::create(&path) { Ok(m) => Some(m), Err(_) => { rep.inconclusive(json!({"reason": "create"})); continue } };
        let mut log: Vec<Value> = Vec::new();
        let steps = rng.usize(6, 24);
        for i in 0..steps {
            rep.eval();
            let Some(m) = handle.as_mut() else { break };
            let roll = if i + 1 == steps { 95 } else { rng.below(100) };
            if roll < 45 {
                let mut b = MemoryCardBuilder::new().entity(rng.pick(&["alice", "Bob", "team.x"])).slot(rng.pick(&["employer", "city", "likes"])).value(format!("v{h}-{i}")).source(rng.below(5), Some(format!("mv2://s/{i}"))).engine("verif", "1");
                b = match rng.below(4) { 0 => b.fact(), 1 => b.preference().positive(), 2 => b.event(), _ => b.profile() };
                if rng.chance(1, 2) { b = b.event_date(rng.range(-1000, 1000)); }
                if rng.chance(1, 2) { b = b.document_date(rng.range(-1000, 1000)); }
                b = match rng.below(4) { 0 => b.updates(), 1 => b.extends(), 2 => b.retracts(), _ => b };
                if rng.chance(1, 3) { b = b.confidence(rng.f32_unit()); }
                if let Ok(card) = b.build(0) {
                    log.push(json!({"op": "put_memory_card", "value": format!("v{h}-{i}")}));
                    if m.put_memory_card(card).is_ok() { rep.count("cards_put"); }
                }
            } else if roll < 60 {
                log.push(json!({"op": "mesh_edit"}));
                let a = format!("Node{}", rng.below(6));
                let b = format!("Org{}", rng.below(6));
                let na = MeshNode::new(a.to_lowercase(), a.clone(), EntityKind::Person, 0.9, rng.below(4), 0, 4);
                let nb = MeshNode::new(b.to_lowercase(), b.clone(), EntityKind::Organization, 0.8, rng.below(4), 5, 9);
                let edge = MeshEdge::new(na.id, nb.id, LinkType::Employer, 0.7, rng.below(4));
                m.add_mesh_node(na);
                m.add_mesh_node(nb);
                m.add_mesh_edge(edge);
                rep.count("mesh_edits");
            } else if roll < 72 {
                log.push(json!({"op": "put_with_triplet"}));
                let _ = m.put_bytes(format!("Carol works at Globex{i} Corp. filler {i}").as_bytes());
            } else if roll < 88 {
                log.push(json!({"op": "commit"}));
                if let Err(e) = m.commit() { rep.violation("C27:commit-failed", e.to_string(), json!({"mode": "c27b", "history": log})); break; }
            } else {
                // commit, snapshot, close, reopen (rw or ro), compare
                if let Err(e) = m.commit() { rep.violation("C27:commit-failed", e.to_string(), json!({"mode": "c27b", "history": log})); break; }
                let before = snapshot(m);
                let ro = rng.chance(1, 3);
                log.push(json!({"op": if ro { "reopen_read_only_compare" } else { "reopen_compare" }}));
                handle = None;
                let opened = if ro { Memvid::open_read_only(&path) } else { Memvid::open(&path) };
                match opened {
                    Ok(o) => {
                        rep.count("reopens");
                        rep.count("persistence_comparisons");
                        let after = snapshot(&o);
                        let how = if ro { "read-only" } else { "read-write" };
                        if after.0 != before.0 {
                            let why = if after.0.len() != before.0.len() { "card-count-differs" } else { "card-fields-differ" };
                            let diff: Vec<(&String, &String)> = before.0.iter().zip(after.0.iter()).filter(|(a, b)| a != b).take(2).collect();
                            rep.violation(&format!("C27:cards-changed-by-reopen:{why}:{how}"), format!("{} cards before close, {} after reopen; first differences {diff:?}", before.0.len(), after.0.len()), json!({"mode": "c27b", "history": log}));
                            break;
                        }
                        if after.1 != before.1 || after.2 != before.2 {
                            rep.violation(&format!("C27:mesh-changed-by-reopen:{how}"), format!("mesh nodes/edges {}/{} before, {}/{} after", before.1.len(), before.2.len(), after.1.len(), after.2.len()), json!({"mode": "c27b", "history": log}));
                            break;
                        }
                        if ro {
                            drop(o);
                            match Memvid::open(&path) { Ok(rw) => handle = Some(rw), Err(e) => { rep.violation("C27:reopen-failed", e.to_string(), json!({"mode": "c27b", "history": log})); break; } }
                        } else {
                            handle = Some(o);
                        }
                    }
                    Err(e) => { rep.violation("C27:reopen-failed", e.to_string(), json!({"mode": "c27b", "history": log})); break; }
                }
            }
        }
        rep.nontrivial(h64(serde_json::to_string(&log).unwrap_or_default().as_bytes()));
        if h < 2 { rep.sample(json!({"history": log.iter().take(10).collect::<Vec<_>>(), "ops": log.len()})); }
        rep.count("histories");
        drop(handle);
        let _ = std::fs::remove_dir_all(&dir);
    }
}
