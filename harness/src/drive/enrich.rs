//! C41 — a background enrichment worker sharing the handle with a foreground writer.
//!
//! The real `start_enrichment_worker` thread runs against `Arc<Mutex<Memvid>>` while this thread
//! plays a foreground history (puts that queue enrichment, plain puts, commits, searches, deletes
//! and updates of un-queued documents, frame reads). Schedules are perturbed at the lock boundaries:
//! the cfg(memvid_verif) phase marks around each of the worker's four lock acquisitions call a sink
//! that sleeps / yields pseudo-randomly *before* the lock is taken, and the foreground sleeps between
//! its own lock acquisitions. Every step of both threads is appended to one ordered event log (the
//! log has its own mutex; sequence = position) from which the interleaving signature and the race
//! windows that were actually hit are computed.
//!
//! Oracle (sequential reference model of the foreground history):
//!  * every acknowledged put/update/delete is in the final frame table with its content;
//!  * documents that were not queued keep every frame field, incl. the enrichment state;
//!  * queued documents differ from their first committed snapshot in the enrichment state only and
//!    end `Enriched`; the queue is empty; the worker reports one processed task per queued document
//!    and no error (the foreground never deletes or updates a queued document, so every task's
//!    frame stays active);
//!  * every active document is found by its unique token after the final commit and after reopen;
//!  * the worker stops when asked (bounded: joins within 30 s after `stop`, its loop sleeps at most
//!    10 x task_delay between two looks at the flag).

use std::sync::atomic::{AtomicU64, Ordering};
use std::sync::{Arc, Mutex};
use std::time::{Duration, Instant};

use memvid_core::types::{EnrichmentState, Frame, FrameStatus, PutOptions, SearchRequest};
use memvid_core::{EnrichmentWorkerConfig, Memvid, start_enrichment_worker, start_enrichment_worker_with_embeddings};
use serde_json::{Value, json};

use super::hist::text_of;
use crate::{Report, Rng, h64, hex_digest};

// ------------------------------------------------------------------ shared event log + perturbation

static LOG: Mutex<Vec<(u8, String)>> = Mutex::new(Vec::new());
static PERTURB: AtomicU64 = AtomicU64::new(0);
static PERTURB_ON: AtomicU64 = AtomicU64::new(0);

fn log(actor: u8, what: impl Into<String>) {
    if let Ok(mut l) = LOG.lock() {
        l.push((actor, what.into()));
    }
}

fn splitmix(x: u64) -> u64 {
    let mut z = x.wrapping_add(0x9E37_79B9_7F4A_7C15);
    z = (z ^ (z >> 30)).wrapping_mul(0xBF58_476D_1CE4_E5B9);
    z = (z ^ (z >> 27)).wrapping_mul(0x94D0_49BB_1331_11EB);
    z ^ (z >> 31)
}

/// Delay injected before a lock acquisition; the style decides how aggressive.
fn perturb() {
    let style = PERTURB_ON.load(Ordering::Relaxed);
    if style == 0 { return; }
    let r = splitmix(PERTURB.fetch_add(0x9E37_79B9, Ordering::Relaxed));
    match (style, r % 8) {
        (_, 0..=2) => {}
        (_, 3) => std::thread::yield_now(),
        (1, _) => std::thread::sleep(Duration::from_micros(100 + (r >> 8) % 900)),
        (2, 4..=6) => std::thread::sleep(Duration::from_micros(200 + (r >> 8) % 3000)),
        (_, _) => std::thread::sleep(Duration::from_millis(3 + (r >> 8) % 12)),
    }
}

fn sink(name: &str, enter: bool) {
    if let Some(step) = name.strip_prefix("enrich_worker:") {
        if enter {
            perturb(); // before the worker takes the lock
            log(b'W', format!("{step}+"));
        } else {
            log(b'W', format!("{step}-"));
        }
    }
}

// ------------------------------------------------------------------ model

#[derive(Clone)]
struct Doc {
    id: u64,
    token: String,
    payload: Vec<u8>,
    uri: String,
    queued: bool,
    status: FrameStatus,
    committed: bool,
    /// frame as first seen after it was committed
    first: Option<Value>,
    first_state: Option<EnrichmentState>,
}

fn snapshot(f: &Frame) -> Value {
    json!({"id": f.id, "uri": f.uri, "title": f.title, "ts": f.timestamp, "tags": f.tags, "labels": f.labels, "kind": f.kind, "track": f.track,
           "role": format!("{:?}", f.role), "parent": f.parent_id, "checksum": hex::encode(f.checksum), "payload_length": f.payload_length,
           "search_text": f.search_text.as_ref().map(|t| hex_digest(t.as_bytes())), "extra": f.extra_metadata, "supersedes": f.supersedes,
           "chunk_index": f.chunk_index, "chunk_count": f.chunk_count, "enc": format!("{:?}", f.canonical_encoding)})
}

struct Embed4;
impl memvid_core::types::VecEmbedder for Embed4 {
    fn embed_query(&self, text: &str) -> memvid_core::Result<Vec<f32>> {
        let h = h64(text.as_bytes());
        Ok((0..4).map(|i| ((h >> (i * 8)) & 0xff) as f32 / 16.0).collect())
    }
    fn embedding_dimension(&self) -> usize { 4 }
}

struct Run<'a> {
    rep: &'a mut Report,
    docs: Vec<Doc>,
    ops: Vec<Value>,
    failed: bool,
    seed: u64,
    cfg: Value,
}

impl Run<'_> {
    fn violation(&mut self, key: &str, what: String) {
        let tail: Vec<String> = LOG.lock().map(|l| l.iter().rev().take(60).rev().map(|(a, w)| format!("{}:{w}", *a as char)).collect()).unwrap_or_default();
        self.rep.violation(key, what, json!({"mode": "drive", "replay_mode": "c41", "seed": self.seed, "config": self.cfg, "foreground_ops": self.ops, "event_log_tail": tail,
            "note": "thread schedules are perturbed pseudo-randomly from the seed; replay re-runs the same seed and configuration (same foreground history, same delay sequence), the OS scheduler may still differ"}));
        self.failed = true;
    }

    /// Compare the frame table with the model. `fin`: the queue is drained and the worker stopped.
    fn check(&mut self, mem: &mut Memvid, ctx: &str, fin: bool) -> bool {
        let committed: Vec<&Doc> = self.docs.iter().filter(|d| d.committed).collect();
        let n = mem.frame_count() as u64;
        let expected_n = committed.len() as u64;
        if n != expected_n {
            let what = format!("{ctx}: frame_count = {n}, the foreground history committed {expected_n} frames");
            let key = if n < expected_n { "C41:acknowledged-frame-lost" } else { "C41:unexpected-extra-frame" };
            self.violation(key, what);
            return false;
        }
        let mut bad: Option<(String, String)> = None;
        let mut firsts: Vec<(usize, Value, EnrichmentState)> = Vec::new();
        for (i, d) in self.docs.iter().enumerate() {
            if !d.committed { continue; }
            let f = match mem.frame_by_id(d.id) {
                Ok(f) => f,
                Err(e) => { bad = Some(("C41:acknowledged-frame-lost".into(), format!("{ctx}: frame {} unreadable: {e}", d.id))); break; }
            };
            self.rep.count("frames_compared");
            if f.uri.as_deref() != Some(d.uri.as_str()) || f.status != d.status {
                bad = Some(("C41:frame-differs-from-model".into(), format!("{ctx}: frame {} is {:?} {:?}, model says {} {:?}", d.id, f.uri, f.status, d.uri, d.status)));
                break;
            }
            if d.status == FrameStatus::Active {
                match mem.frame_canonical_payload(d.id) {
                    Ok(b) if b == d.payload => {}
                    Ok(b) => { bad = Some(("C41:content-differs".into(), format!("{ctx}: frame {} content has {} bytes b3 {}, stored {} bytes b3 {}", d.id, b.len(), hex_digest(&b), d.payload.len(), hex_digest(&d.payload)))); break; }
                    Err(e) => { bad = Some(("C41:content-unreadable".into(), format!("{ctx}: frame {}: {e}", d.id))); break; }
                }
            }
            let snap = snapshot(&f);
            match &d.first {
                None => firsts.push((i, snap, f.enrichment_state)),
                Some(first) => {
                    if *first != snap {
                        let cls = if d.queued { "queued-frame" } else { "frame-not-queued" };
                        bad = Some((format!("C41:frame-fields-changed:{cls}"), format!("{ctx}: frame {} changed outside its enrichment state: first committed {first}, now {snap}", d.id)));
                        break;
                    }
                    if !d.queued && Some(f.enrichment_state) != d.first_state {
                        bad = Some(("C41:enrichment-state-changed:frame-not-queued".into(), format!("{ctx}: frame {} was never queued, its enrichment state went {:?} -> {:?}", d.id, d.first_state, f.enrichment_state)));
                        break;
                    }
                }
            }
            if fin && d.queued && d.status == FrameStatus::Active && f.enrichment_state != EnrichmentState::Enriched {
                bad = Some(("C41:queued-frame-not-enriched".into(), format!("{ctx}: frame {} was queued for enrichment, the queue is empty and the worker has stopped, its state is {:?}", d.id, f.enrichment_state)));
                break;
            }
            if !d.queued && f.enrichment_state != EnrichmentState::Enriched {
                bad = Some(("C41:unqueued-frame-not-enriched".into(), format!("{ctx}: frame {} was not queued and is {:?}", d.id, f.enrichment_state)));
                break;
            }
        }
        for (i, snap, st) in firsts {
            self.docs[i].first = Some(snap);
            self.docs[i].first_state = Some(st);
        }
        if let Some((k, w)) = bad {
            self.violation(&k, w);
            return false;
        }
        true
    }

    fn check_search(&mut self, mem: &mut Memvid, ctx: &str) -> bool {
        let docs: Vec<(u64, String)> = self.docs.iter().filter(|d| d.committed && d.status == FrameStatus::Active).map(|d| (d.id, d.token.clone())).collect();
        for (id, token) in docs {
            let req = SearchRequest { query: token.clone(), top_k: 10, snippet_chars: 60, uri: None, scope: None, cursor: None, as_of_frame: None, as_of_ts: None, no_sketch: true, acl_context: None, acl_enforcement_mode: Default::default() };
            self.rep.count("searches_checked");
            match mem.search(req) {
                Ok(r) => {
                    if !r.hits.iter().any(|h| h.frame_id == id) {
                        let got: Vec<u64> = r.hits.iter().map(|h| h.frame_id).collect();
                        self.violation("C41:active-frame-not-searchable", format!("{ctx}: search for the unique token {token} of active frame {id} returned frames {got:?}"));
                        return false;
                    }
                    if let Some(h) = r.hits.iter().find(|h| h.frame_id != id) {
                        let other = h.frame_id;
                        let stale = self.docs.iter().any(|d| d.id == other && d.status != FrameStatus::Active);
                        if stale {
                            self.violation("C41:inactive-frame-searchable", format!("{ctx}: search for {token} also returned inactive frame {other}"));
                            return false;
                        }
                    }
                }
                Err(e) => { self.violation("C41:search-failed", format!("{ctx}: search {token}: {e}")); return false; }
            }
        }
        true
    }
}

fn lock<'a>(m: &'a Arc<Mutex<Memvid>>) -> Option<std::sync::MutexGuard<'a, Memvid>> {
    m.lock().ok()
}

/// One history. Returns the interleaving signature.
fn history(rep: &mut Report, dir: &std::path::Path, rng: &mut Rng, seed: u64, forced: Option<&Value>) -> u64 {
    let path = dir.join("mem.mv2");
    let _ = std::fs::remove_file(&path);
    let cfgv = match forced {
        Some(c) => c.clone(),
        None => json!({"ops": rng.usize(12, 40), "task_delay_ms": rng.pick(&[0u64, 0, 1, 2, 5]), "checkpoint_interval": rng.pick(&[1usize, 2, 3, 100]),
                       "style": rng.pick(&[1u64, 2, 2, 3]), "queued_pct": rng.pick(&[30u64, 50, 80]), "commit_pct": rng.pick(&[8u64, 15, 30]),
                       "embed_worker_at": if rng.chance(1, 4) { Some(rng.usize(4, 12)) } else { None }, "gen": rng.next()}),
    };
    let mut g = Rng(cfgv["gen"].as_u64().unwrap_or(1));
    let ops = cfgv["ops"].as_u64().unwrap_or(20) as usize;
    let mem = match Memvid::create(&path) {
        Ok(m) => m,
        Err(e) => { rep.inconclusive(json!({"reason": format!("create failed: {e}")})); return 0; }
    };
    if let Ok(mut l) = LOG.lock() { l.clear(); }
    PERTURB.store(cfgv["gen"].as_u64().unwrap_or(1), Ordering::Relaxed);
    PERTURB_ON.store(cfgv["style"].as_u64().unwrap_or(2), Ordering::Relaxed);
    let shared = Arc::new(Mutex::new(mem));
    let wcfg = EnrichmentWorkerConfig { embedding_batch_size: 4, checkpoint_interval: cfgv["checkpoint_interval"].as_u64().unwrap_or(100) as usize, task_delay_ms: cfgv["task_delay_ms"].as_u64().unwrap_or(1), max_task_time_ms: 5000 };
    let mut handle = Some(start_enrichment_worker(Arc::clone(&shared), Some(wcfg.clone())));
    let mut run = Run { rep, docs: Vec::new(), ops: Vec::new(), failed: false, seed, cfg: cfgv.clone() };
    let mut queued_acked = 0u64;
    let mut embed_rounds = 0u64;
    let mut embed_handles = Vec::new();
    let mut counter = 0u64;
    for i in 0..ops {
        if run.failed { break; }
        run.rep.eval();
        perturb();
        let roll = g.below(100);
        let plain_active: Vec<usize> = run.docs.iter().enumerate().filter(|(_, d)| d.committed && !d.queued && d.status == FrameStatus::Active).map(|(i, _)| i).collect();
        let commit_pct = cfgv["commit_pct"].as_u64().unwrap_or(15);
        if cfgv["embed_worker_at"].as_u64() == Some(i as u64) {
            // the one-shot embedding worker takes the lock for its whole run; it races the loop worker and the foreground
            log(b'F', "embed-worker-start");
            run.ops.push(json!({"op": "embed-worker"}));
            embed_handles.push(start_enrichment_worker_with_embeddings(Arc::clone(&shared), Embed4, Some(wcfg.clone())));
            embed_rounds += 1;
            continue;
        }
        if roll < 55 {
            counter += 1;
            let queued = g.below(100) < cfgv["queued_pct"].as_u64().unwrap_or(50);
            let token = format!("zq{}x{}", seed % 100_000, counter);
            let len = g.usize(30, 400);
            let text = text_of(&mut g, len, &token);
            let mut o = PutOptions::default();
            o.timestamp = Some(1_700_000_000 + counter as i64);
            o.uri = Some(format!("mv2://c41/{token}"));
            o.title = Some(format!("T{counter}"));
            o.instant_index = queued || g.chance(1, 2);
            o.enable_embedding = queued;
            o.extract_triplets = false;
            log(b'F', format!("put{}+", if queued { "Q" } else { "" }));
            let Some(mut m) = lock(&shared) else { run.violation("C41:mutex-poisoned", "the shared handle's mutex is poisoned (a thread panicked while holding it)".into()); break };
            let predicted = m.next_frame_id();
            let r = m.put_bytes_with_options(text.as_bytes(), o);
            let hold = g.chance(1, 6);
            if hold { std::thread::sleep(Duration::from_micros(300)); }
            drop(m);
            log(b'F', "put-");
            run.ops.push(json!({"op": "put", "queued": queued, "token": token, "len": text.len()}));
            match r {
                Ok(_) => {
                    run.rep.count("puts_acknowledged");
                    if queued { queued_acked += 1; run.rep.count("puts_queued_for_enrichment"); }
                    run.docs.push(Doc { id: predicted, token, payload: text.into_bytes(), uri: format!("mv2://c41/zq{}x{}", seed % 100_000, counter), queued, status: FrameStatus::Active, committed: false, first: None, first_state: None });
                }
                Err(e) => { run.violation("C41:put-failed", format!("put failed next to the worker: {e}")); }
            }
        } else if roll < 55 + commit_pct {
            log(b'F', "commit+");
            let Some(mut m) = lock(&shared) else { run.violation("C41:mutex-poisoned", "mutex poisoned".into()); break };
            let r = m.commit();
            run.ops.push(json!({"op": "commit"}));
            match r {
                Ok(()) => {
                    run.rep.count("commits");
                    for d in &mut run.docs { d.committed = true; }
                    let ok = run.check(&mut m, "after foreground commit", false);
                    drop(m);
                    log(b'F', "commit-");
                    if !ok { break; }
                }
                Err(e) => { drop(m); run.violation("C41:commit-failed", format!("foreground commit failed next to the worker: {e}")); }
            }
        } else if roll < 80 {
            // search for a committed active document while the worker rewrites index entries
            let cands: Vec<(u64, String)> = run.docs.iter().filter(|d| d.committed && d.status == FrameStatus::Active).map(|d| (d.id, d.token.clone())).collect();
            if cands.is_empty() { continue; }
            let (id, token) = g.pick_ref(&cands).clone();
            log(b'F', "search+");
            let Some(mut m) = lock(&shared) else { run.violation("C41:mutex-poisoned", "mutex poisoned".into()); break };
            let req = SearchRequest { query: token.clone(), top_k: 10, snippet_chars: 60, uri: None, scope: None, cursor: None, as_of_frame: None, as_of_ts: None, no_sketch: true, acl_context: None, acl_enforcement_mode: Default::default() };
            let r = m.search(req);
            drop(m);
            log(b'F', "search-");
            run.ops.push(json!({"op": "search", "token": token}));
            run.rep.count("searches_during_run");
            match r {
                Ok(r) => if !r.hits.iter().any(|h| h.frame_id == id) {
                    run.violation("C41:active-frame-not-searchable", format!("during the run: search for the unique token {token} of committed active frame {id} returned {:?}", r.hits.iter().map(|h| h.frame_id).collect::<Vec<_>>()));
                },
                Err(e) => run.violation("C41:search-failed", format!("during the run: {e}")),
            }
        } else if roll < 88 && !plain_active.is_empty() {
            let di = *g.pick_ref(&plain_active);
            let id = run.docs[di].id;
            log(b'F', "delete+");
            let Some(mut m) = lock(&shared) else { run.violation("C41:mutex-poisoned", "mutex poisoned".into()); break };
            let r = m.delete_frame(id);
            drop(m);
            log(b'F', "delete-");
            run.ops.push(json!({"op": "delete", "target": id}));
            match r {
                // the tombstone is applied by the next commit (foreground's or the worker's checkpoint); frames are compared after commits only
                Ok(_) => { run.rep.count("deletes_acknowledged"); run.docs[di].status = FrameStatus::Deleted; }
                Err(e) => run.violation("C41:delete-failed", format!("delete of committed active frame {id}: {e}")),
            }
        } else {
            // read a committed frame
            let cands: Vec<u64> = run.docs.iter().filter(|d| d.committed && d.status == FrameStatus::Active).map(|d| d.id).collect();
            if cands.is_empty() { continue; }
            let id = g.pick(&cands);
            log(b'F', "read+");
            let Some(mut m) = lock(&shared) else { run.violation("C41:mutex-poisoned", "mutex poisoned".into()); break };
            let r = m.frame_canonical_payload(id);
            drop(m);
            log(b'F', "read-");
            run.rep.count("reads_during_run");
            let want = run.docs.iter().find(|d| d.id == id).map(|d| d.payload.clone()).unwrap_or_default();
            match r {
                Ok(b) if b == want => {}
                Ok(b) => run.violation("C41:content-differs", format!("during the run: frame {id} content {} bytes, stored {} bytes", b.len(), want.len())),
                Err(e) => run.violation("C41:content-unreadable", format!("during the run: frame {id}: {e}")),
            }
        }
    }
    // ---- quiesce: final commit, bounded wait for the queue to drain, stop
    if !run.failed {
        log(b'F', "final-commit+");
        match lock(&shared) {
            Some(mut m) => match m.commit() {
                Ok(()) => { for d in &mut run.docs { d.committed = true; } }
                Err(e) => { drop(m); run.violation("C41:commit-failed", format!("final commit: {e}")); }
            },
            None => run.violation("C41:mutex-poisoned", "mutex poisoned".into()),
        }
        log(b'F', "final-commit-");
    }
    let mut drained = false;
    if !run.failed {
        let t0 = Instant::now();
        let mut last_progress = (Instant::now(), u64::MAX);
        loop {
            let (qlen, processed) = match lock(&shared) {
                Some(m) => (m.enrichment_queue_len(), handle.as_ref().map(|h| h.stats().frames_processed).unwrap_or(0)),
                None => { run.violation("C41:mutex-poisoned", "mutex poisoned".into()); break; }
            };
            if qlen == 0 { drained = true; break; }
            if processed != last_progress.1 { last_progress = (Instant::now(), processed); }
            if last_progress.0.elapsed() > Duration::from_secs(30) {
                run.violation("C41:queue-not-drained:no-progress", format!("{qlen} task(s) still queued and the worker has processed nothing for 30 s after the foreground stopped ({processed} processed in total)"));
                break;
            }
            if t0.elapsed() > Duration::from_secs(240) {
                run.rep.inconclusive(json!({"reason": "queue not drained within the 240 s watchdog although the worker keeps progressing", "queued": qlen}));
                run.failed = true;
                break;
            }
            std::thread::sleep(Duration::from_millis(2));
        }
    }
    for h2 in embed_handles {
        let st = h2.stop_and_wait();
        run.rep.add("tasks_done_by_embedding_worker", st.frames_processed);
        if st.errors != 0 { run.violation("C41:embedding-worker-error", format!("the one-shot embedding worker reports {} error(s)", st.errors)); }
    }
    // stop (bounded)
    let stats = handle.take().map(|h| {
        let (tx, rx) = std::sync::mpsc::channel();
        let t0 = Instant::now();
        std::thread::spawn(move || { let s = h.stop_and_wait(); let _ = tx.send(s); });
        (rx.recv_timeout(Duration::from_secs(30)).ok(), t0.elapsed())
    });
    PERTURB_ON.store(0, Ordering::Relaxed);
    let sig = interleaving_signature(run.rep);
    match stats {
        Some((Some(st), waited)) => {
            run.rep.count("workers_stopped");
            run.rep.max("max_stop_wait_ms", waited.as_millis() as u64);
            if st.is_running { run.violation("C41:worker-still-running-after-stop", "stop_and_wait returned but the statistics say the worker is running".into()); }
            if drained && !run.failed {
                run.rep.add("tasks_processed_by_worker", st.frames_processed);
                // recorded without ending the history: the final comparison below shows what the failed tasks left behind
                if st.errors != 0 {
                    let d = json!({"mode": "drive", "replay_mode": "c41", "seed": run.seed, "config": run.cfg, "foreground_ops": run.ops});
                    run.rep.violation("C41:worker-task-error", format!("the worker reports {} failed task(s) out of {} although every queued document stayed active (queued and acknowledged: {queued_acked})", st.errors, st.frames_processed), d);
                } else if st.frames_processed != queued_acked && embed_rounds == 0 {
                    let cls = if st.frames_processed > queued_acked { "task-processed-more-than-once" } else { "task-never-processed" };
                    let d = json!({"mode": "drive", "replay_mode": "c41", "seed": run.seed, "config": run.cfg, "foreground_ops": run.ops});
                    run.rep.violation(&format!("C41:{cls}"), format!("{queued_acked} documents were queued, the worker processed {} tasks", st.frames_processed), d);
                }
            }
        }
        Some((None, _)) => { run.violation("C41:worker-did-not-stop", "stop_and_wait did not return within 30 s".into()); }
        None => {}
    }
    // final comparison on the live handle, then after reopen
    if !run.failed && drained {
        match Arc::try_unwrap(shared) {
            Ok(mx) => match mx.into_inner() {
                Ok(mut m) => {
                    // the worker's last checkpoint may have left nothing to commit; commit again so the state is on disk
                    let _ = m.commit();
                    let ok = run.check(&mut m, "after the worker stopped", true) && run.check_search(&mut m, "after the worker stopped");
                    if ok && m.enrichment_queue_len() != 0 { run.violation("C41:queue-not-empty-at-end", format!("{} task(s) queued after drain + stop", m.enrichment_queue_len())); }
                    drop(m);
                    if !run.failed {
                        match Memvid::open(&path) {
                            Ok(mut m2) => {
                                run.rep.count("reopens");
                                let ok = run.check(&mut m2, "after reopen", true) && run.check_search(&mut m2, "after reopen");
                                if ok && m2.enrichment_queue_len() != 0 { run.violation("C41:queue-not-empty-after-reopen", format!("{} task(s) queued after reopen", m2.enrichment_queue_len())); }
                            }
                            Err(e) => run.violation("C41:reopen-failed", format!("open after the run: {e}")),
                        }
                    }
                }
                Err(_) => run.violation("C41:mutex-poisoned", "mutex poisoned at the end".into()),
            },
            Err(_) => run.rep.inconclusive(json!({"reason": "the handle is still shared after the worker joined"})),
        }
    }
    if run.rep.samples.len() < 2 {
        let tail: Vec<String> = LOG.lock().map(|l| l.iter().take(40).map(|(a, w)| format!("{}:{w}", *a as char)).collect()).unwrap_or_default();
        let ops_head: Vec<Value> = run.ops.iter().take(8).cloned().collect();
        run.rep.sample(json!({"config": cfgv, "foreground_ops_head": ops_head, "documents": run.docs.len(), "event_log_head": tail}));
    }
    run.rep.count("histories");
    sig
}

/// What the two threads actually did relative to each other, from the ordered event log.
fn interleaving_signature(rep: &mut Report) -> u64 {
    let l = match LOG.lock() { Ok(l) => l.clone(), Err(_) => return 0 };
    rep.add("events_logged", l.len() as u64);
    let mut switches = 0u64;
    let mut sig = String::new();
    let mut prev = 0u8;
    // race windows: foreground steps that completed between two worker lock acquisitions of one task
    let mut last_worker_exit: Option<String> = None;
    let mut fg_since_exit = false;
    let mut fg_open: Option<String> = None;
    for (a, w) in &l {
        if *a != prev { switches += 1; prev = *a; }
        sig.push(*a as char);
        sig.push_str(w);
        if *a == b'W' {
            if let Some(step) = w.strip_suffix('+') {
                if let (Some(prev_step), true) = (&last_worker_exit, fg_since_exit) {
                    rep.count(&format!("window[{prev_step}->{step}]_with_foreground_step"));
                }
                if let Some(f) = &fg_open { rep.count(&format!("worker_{step}_requested_while_foreground_{f}")); }
                fg_since_exit = false;
            } else if let Some(step) = w.strip_suffix('-') {
                last_worker_exit = Some(step.to_string());
                fg_since_exit = false;
            }
        } else {
            if let Some(op) = w.strip_suffix('+') { fg_open = Some(op.trim_end_matches('Q').to_string()); }
            if w.ends_with('-') { fg_open = None; fg_since_exit = true; }
        }
    }
    rep.add("thread_switches_observed", switches);
    h64(sig.as_bytes())
}

pub fn c41(rep: &mut Report, scratch: &std::path::Path, rng: &mut Rng, histories: u64) {
    for c in ["puts_queued_for_enrichment", "tasks_processed_by_worker", "commits", "workers_stopped", "thread_switches_observed", "frames_compared"] { rep.require(c); }
    memvid_core::verif_hooks::set_phase_sink(Some(sink));
    let base = rng.next();
    for h in 0..histories {
        let dir = scratch.join(format!("e{h}"));
        let _ = std::fs::create_dir_all(&dir);
        let sig = history(rep, &dir, &mut rng.fork(), base.wrapping_add(h), None);
        rep.nontrivial(sig);
        let _ = std::fs::remove_dir_all(&dir);
    }
    let n = rep.distinct.len() as u64;
    rep.add("distinct_interleavings", n.saturating_sub(rep.counters.get("distinct_interleavings").copied().unwrap_or(0)));
}

pub fn replay(rep: &mut Report, scratch: &std::path::Path, detail: &Value) {
    memvid_core::verif_hooks::set_phase_sink(Some(sink));
    let dir = scratch.join("replay");
    let _ = std::fs::create_dir_all(&dir);
    let seed = detail["seed"].as_u64().unwrap_or(1);
    // the schedule is not reproducible exactly; run the same configuration a few times
    for _ in 0..5 {
        let mut r = Rng::new(seed);
        history(rep, &dir, &mut r, seed, detail.get("config"));
        if !rep.violations.is_empty() { break; }
    }
    let _ = std::fs::remove_dir_all(&dir);
}
