//! C29 — encrypted capsules round-trip exactly and reject tampering (`encryption` feature).

use std::path::Path;

use memvid_core::encryption::{lock_file, unlock_file};
use serde_json::{Value, json};

use crate::{Report, Rng, h64};

const HEADER: usize = 64;
const CHUNK: usize = 1024 * 1024;

/// Parse the framed layout: offsets of every length prefix and chunk.
fn layout(capsule: &[u8]) -> Vec<(usize, usize)> {
    // (offset of length prefix, ciphertext length)
    let mut out = Vec::new();
    let mut pos = HEADER;
    while pos + 4 <= capsule.len() {
        let len = u32::from_le_bytes(capsule[pos..pos + 4].try_into().unwrap()) as usize;
        if pos + 4 + len > capsule.len() { break; }
        out.push((pos, len));
        pos += 4 + len;
    }
    out
}

struct Mutant {
    name: String,
    class: &'static str,
    bytes: Vec<u8>,
}

fn mutants(rng: &mut Rng, cap: &[u8], thorough: bool) -> Vec<Mutant> {
    let mut v = Vec::new();
    let lay = layout(cap);
    let flip = |bytes: &[u8], at: usize, mask: u8| { let mut b = bytes.to_vec(); b[at] ^= mask; b };
    // header: every field at least once; all bytes x 3 patterns in thorough
    let header_positions: Vec<usize> = if thorough { (0..HEADER).collect() } else { let mut p = vec![0, 4, 6, 7, 8, 39, 40, 51, 52, 59, 60, 61, 63]; p.push(rng.usize(8, 51)); p };
    for at in header_positions {
        // bytes 44..51 of the stored nonce are replaced by the chunk counter when decrypting
        let field = match at { 0..=3 => "magic", 4..=5 => "version", 6 => "kdf", 7 => "cipher", 8..=39 => "salt", 40..=43 => "nonce", 44..=51 => "nonce-counter-bytes", 52..=59 => "original_size", 60 => "format-flag", _ => "reserved" };
        for mask in if thorough { vec![0x01u8, 0x80, 0xFF] } else { vec![1u8 << rng.below(8)] } {
            v.push(Mutant { name: format!("header byte {at} ^= {mask:#x}"), class: match field { "original_size" => "header:original_size", "reserved" => "header:reserved", "format-flag" => "header:format-flag", "nonce-counter-bytes" => "header:nonce-counter-bytes", _ => "header:other" }, bytes: flip(cap, at, mask) });
        }
    }
    // every byte of every length prefix
    for (off, _) in &lay {
        for b in 0..4 {
            if thorough || rng.chance(1, 2) { v.push(Mutant { name: format!("length prefix at {off} byte {b}"), class: "length-prefix", bytes: flip(cap, off + b, 1 << rng.below(8)) }); }
        }
    }
    // ciphertext / tag bytes
    if cap.len() > HEADER + 4 {
        for _ in 0..(if thorough { 60 } else { 4 }) {
            let at = rng.usize(HEADER + 4, cap.len() - 1);
            if lay.iter().any(|(o, _)| at >= *o && at < o + 4) { continue; }
            v.push(Mutant { name: format!("ciphertext byte {at}"), class: "ciphertext", bytes: flip(cap, at, 1 << rng.below(8)) });
        }
        // last byte = tag of the last chunk
        v.push(Mutant { name: "last tag byte".into(), class: "ciphertext", bytes: flip(cap, cap.len() - 1, 0x40) });
    }
    // truncation: at every chunk boundary, boundary +-1..4, random offsets
    let mut cuts: Vec<(usize, &'static str)> = Vec::new();
    for (off, len) in &lay {
        cuts.push((*off, "truncated-at-chunk-boundary"));
        for d in 1..=4usize { cuts.push((off + d, "truncated-inside-length-prefix")); cuts.push((off.saturating_sub(d), "truncated-inside-chunk")); }
        cuts.push((off + 4 + len / 2, "truncated-inside-chunk"));
    }
    cuts.push((cap.len() - 1, "truncated-inside-chunk"));
    for _ in 0..(if thorough { 40 } else { 3 }) { cuts.push((rng.usize(0, cap.len() - 1), "truncated-random")); }
    for (cut, class) in cuts {
        if cut >= cap.len() { continue; }
        let class = if cut < HEADER { "truncated-inside-header" } else if cut == HEADER && class == "truncated-at-chunk-boundary" { "truncated-after-header" } else { class };
        v.push(Mutant { name: format!("truncated to {cut} bytes"), class, bytes: cap[..cut].to_vec() });
    }
    // chunk-level edits
    let chunk_bytes = |i: usize| { let (o, l) = lay[i]; cap[o..o + 4 + l].to_vec() };
    if lay.len() >= 2 {
        let mut swapped = cap[..HEADER].to_vec();
        swapped.extend(chunk_bytes(1)); swapped.extend(chunk_bytes(0));
        for i in 2..lay.len() { swapped.extend(chunk_bytes(i)); }
        v.push(Mutant { name: "chunks 0 and 1 swapped".into(), class: "chunk-reordered", bytes: swapped });
        let mut removed = cap[..HEADER].to_vec();
        for i in 0..lay.len() { if i != 0 { removed.extend(chunk_bytes(i)); } }
        v.push(Mutant { name: "first chunk removed".into(), class: "chunk-removed", bytes: removed });
        let mut removed_last = cap[..HEADER].to_vec();
        for i in 0..lay.len() - 1 { removed_last.extend(chunk_bytes(i)); }
        v.push(Mutant { name: "last chunk removed".into(), class: "truncated-at-chunk-boundary", bytes: removed_last });
    }
    if !lay.is_empty() {
        let mut dup = cap.to_vec();
        dup.extend(chunk_bytes(lay.len() - 1));
        v.push(Mutant { name: "last chunk duplicated".into(), class: "chunk-duplicated", bytes: dup });
    }
    let mut appended = cap.to_vec();
    appended.extend(rng.bytes(rng.clone().usize(1, 3)));
    v.push(Mutant { name: "1..3 garbage bytes appended".into(), class: "garbage-appended-short", bytes: appended });
    let mut appended = cap.to_vec();
    appended.extend(rng.bytes(40));
    v.push(Mutant { name: "40 garbage bytes appended".into(), class: "garbage-appended", bytes: appended });
    v
}

pub fn c29(rep: &mut Report, scratch: &Path, rng: &mut Rng, sizes: &[usize], thorough: bool) {
    for c in ["roundtrips", "tampered_rejected", "capsules_with_several_chunks"] { rep.require(c); }
    let password = b"correct horse battery staple";
    for (n, &size) in sizes.iter().enumerate() {
        let dir = scratch.join(format!("cap{n}"));
        let _ = std::fs::create_dir_all(&dir);
        let plain = dir.join("f.mv2");
        let mut content = b"MV2\0".to_vec();
        content.extend(rng.bytes(size.saturating_sub(4)));
        if std::fs::write(&plain, &content).is_err() { rep.inconclusive(json!({"reason": "write"})); continue; }
        let cap_path = dir.join("f.mv2e");
        rep.eval();
        if let Err(e) = lock_file(&plain, Some(&cap_path), password) { rep.violation("C29:lock-failed", format!("lock of a {size}-byte file failed: {e}"), json!({"mode": "c29", "size": size})); continue; }
        let cap = std::fs::read(&cap_path).unwrap_or_default();
        let out = dir.join("out.mv2");
        match unlock_file(&cap_path, Some(&out), password) {
            Ok(_) if std::fs::read(&out).unwrap_or_default() == content => rep.count("roundtrips"),
            Ok(_) => { rep.violation("C29:roundtrip-differs", format!("unlock(lock(f)) != f for a {size}-byte file"), json!({"mode": "c29", "size": size})); continue; }
            Err(e) => { rep.violation("C29:roundtrip-failed", format!("unlock of an untouched capsule failed: {e}"), json!({"mode": "c29", "size": size})); continue; }
        }
        let _ = std::fs::remove_file(&out);
        if layout(&cap).len() > 1 { rep.count("capsules_with_several_chunks"); }
        // wrong password must fail as well
        match unlock_file(&cap_path, Some(&out), b"wrong password") {
            Err(_) if !out.exists() => rep.count("tampered_rejected"),
            Err(_) => rep.violation("C29:output-left-behind:wrong-password", "failed unlock left an output file".into(), json!({"mode": "c29", "size": size})),
            Ok(_) => rep.violation("C29:accepted:wrong-password", "unlock with a wrong password succeeded".into(), json!({"mode": "c29", "size": size})),
        }
        let _ = std::fs::remove_file(&out);
        for m in mutants(rng, &cap, thorough) {
            rep.eval();
            let mp = dir.join("m.mv2e");
            if std::fs::write(&mp, &m.bytes).is_err() { continue; }
            let previous: Option<Vec<u8>> = if rng.chance(1, 4) { let p = rng.bytes(16); let _ = std::fs::write(&out, &p); Some(p) } else { None };
            let res = unlock_file(&mp, Some(&out), password);
            let written = std::fs::read(&out).ok();
            let detail = json!({"mode": "c29", "size": size, "capsule_len": cap.len(), "mutant": m.name, "class": m.class});
            match res {
                Err(_) => {
                    if written == previous {
                        rep.count("tampered_rejected");
                        rep.nontrivial(h64(format!("{size}:{}", m.name).as_bytes()));
                    } else {
                        rep.violation(&format!("C29:rejected-but-output-written:{}", m.class), format!("{}: unlock failed but the output path changed", m.name), detail);
                    }
                }
                Ok(_) => {
                    let same = written.as_deref() == Some(content.as_slice());
                    let key = if same { format!("C29:accepted:output-identical:{}", m.class) } else { format!("C29:accepted:output-differs:{}", m.class) };
                    let wl = written.as_ref().map_or(0, Vec::len);
                    rep.violation(&key, format!("{}: unlock returned Ok and wrote {wl} bytes (original {} bytes, identical: {same})", m.name, content.len()), detail);
                }
            }
            let _ = std::fs::remove_file(&out);
        }
        if n < 2 { rep.sample(json!({"plain_size": size, "capsule_size": cap.len(), "chunks": layout(&cap).len()})); }
        let _ = std::fs::remove_dir_all(&dir);
    }
    let _ = (CHUNK, Value::Null);
}
