//! Deterministic histories for the engines that look at the *file*: E2 (crash images from a recorded
//! syscall stream), C23 (two executions of the same calls) and the fault-injection corpus.
//!
//! `mvdrive runhist --seed S --ops N --dir D --name mem.mv2 --states out.json [--profile crash|corpus]`
//! executes one history in D, emits operation and phase markers through `iorec_mark` when the
//! recorder is preloaded, and writes the expected *document states* after every operation:
//! state i = every acknowledged operation up to and including op i applied (committed or not).

use std::ffi::CString;

use memvid_core::types::{FrameRole, FrameStatus, SearchRequest, Ticket, TimelineQuery};
use memvid_core::{Memvid, normalize_text};
use serde_json::{Value, json};

use super::hist::{HistCfg, exec_op, text_of};
use super::world::{Pending, World};
use crate::{Report, Rng, hex_digest};

type MarkFn = unsafe extern "C" fn(*const std::os::raw::c_char);

unsafe extern "C" {
    fn dlsym(handle: *mut std::os::raw::c_void, symbol: *const std::os::raw::c_char) -> *mut std::os::raw::c_void;
}

static MARK: std::sync::OnceLock<Option<MarkFn>> = std::sync::OnceLock::new();

pub fn mark(text: &str) {
    let f = MARK.get_or_init(|| {
        let name = CString::new("iorec_mark").ok()?;
        // RTLD_DEFAULT = null: finds the symbol only when the recorder is preloaded
        let p = unsafe { dlsym(std::ptr::null_mut(), name.as_ptr()) };
        if p.is_null() { None } else { Some(unsafe { std::mem::transmute::<*mut std::os::raw::c_void, MarkFn>(p) }) }
    });
    if let (Some(f), Ok(c)) = (f, CString::new(text)) {
        unsafe { f(c.as_ptr()) };
    }
}

pub fn install_phase_marks() {
    memvid_core::verif_hooks::set_phase_sink(Some(|name, enter| mark(&format!("{} {name}", if enter { "PHASE_ENTER" } else { "PHASE_EXIT" }))));
}

/// Expected digest of a document's canonical payload, computable before the put materialises.
fn expected_content(mem: &Memvid, payload: &[u8]) -> Value {
    match std::str::from_utf8(payload) {
        Ok(text) => match mem.preview_chunks(payload) {
            Some(chunks) => {
                let cat: String = chunks.concat();
                let unstructured = normalize_text(text, usize::MAX).is_some_and(|n| !memvid_core::structure::detect_structure(&n.text).has_structure());
                json!({"kind": "chunked", "chunks": chunks.len(), "len": cat.len(), "b3": hex_digest(cat.as_bytes()), "exact": unstructured})
            }
            None => json!({"kind": "whole", "len": payload.len(), "b3": hex_digest(payload)}),
        },
        Err(_) => json!({"kind": "whole", "len": payload.len(), "b3": hex_digest(payload)}),
    }
}

/// Document-level view of the model with every acknowledged (also pending) operation applied.
fn doc_state(w: &World<'_>, contents: &std::collections::BTreeMap<String, Value>) -> Vec<Value> {
    // (uri, status, content, supersedes-uri)
    let mut docs: Vec<(String, String, Value)> = w.model.frames.iter().filter(|m| !m.is_chunk).map(|m| (m.uri.clone(), format!("{:?}", m.status), contents.get(&m.token).cloned().unwrap_or(Value::Null))).collect();
    let mut id_of: Vec<usize> = w.model.frames.iter().enumerate().filter(|(_, m)| !m.is_chunk).map(|(i, _)| i).collect();
    for p in &w.model.pending {
        match p {
            Pending::Put { spec, .. } => { docs.push((spec.uri.clone().unwrap_or_default(), "Active".into(), contents.get(&spec.token).cloned().unwrap_or(Value::Null))); id_of.push(usize::MAX); }
            Pending::Update { spec, .. } => {
                let pos = id_of.iter().position(|i| *i == spec.target as usize);
                let (uri, old_content) = pos.map(|p| (docs[p].0.clone(), docs[p].2.clone())).unwrap_or_default();
                if let Some(p) = pos { docs[p].1 = "Superseded".into(); }
                let content = if spec.payload.is_some() { contents.get(&spec.token).cloned().unwrap_or(Value::Null) } else { old_content };
                docs.push((uri, "Active".into(), content));
                id_of.push(usize::MAX);
            }
            Pending::Delete { target } => { if let Some(p) = id_of.iter().position(|i| *i == *target as usize) { docs[p].1 = "Deleted".into(); } }
        }
    }
    docs.into_iter().map(|(uri, status, content)| json!({"uri": uri, "status": status, "content": content})).collect()
}

pub fn runhist(args: &crate::Args) -> Report {
    let seed = args.u64("seed", 1);
    let dir = std::path::PathBuf::from(args.str("dir").unwrap_or("."));
    let name = args.str("name").unwrap_or("mem.mv2").to_string();
    let ops = args.u64("ops", 15) as usize;
    let profile = args.str("profile").unwrap_or("crash").to_string();
    let mut rep = Report::new(args.str("property").unwrap_or("C02"), "runhist", seed, "one deterministic history for the file-level engines");
    let cfg = HistCfg { ops, monitors: vec!["c01".into()], small_only: true, with_embeddings: false, maintenance: false, ts_mode: 0, check_every: 1_000_000 };
    install_phase_marks();
    let _ = std::fs::create_dir_all(&dir);
    let mut w = World::new(&dir, &name, Rng::new(seed), &mut rep);
    let mut contents: std::collections::BTreeMap<String, Value> = std::collections::BTreeMap::new();
    let mut states: Vec<Value> = Vec::new();
    let mut ticket_seq = 1i64;
    let mut step = |w: &mut World<'_>, i: usize, op: &Value, contents: &mut std::collections::BTreeMap<String, Value>, states: &mut Vec<Value>| -> bool {
        let opname = op["op"].as_str().unwrap_or("").to_string();
        // expected content of a new payload (needs the handle, before the call)
        if let (Some(m), true) = (w.mem.as_ref(), opname == "put" || opname == "update") {
            let token = op["token"].as_str().unwrap_or("").to_string();
            let payload: Option<Vec<u8>> = if opname == "put" { Some(super::hist::put_from_json(op).payload) } else { op.get("gen").and_then(Value::as_u64).map(|g| super::hist::gen_payload(&mut Rng(g), &token, true).0) };
            if let Some(p) = payload { contents.insert(token, expected_content(m, &p)); }
        }
        mark(&format!("OP_BEGIN {i} {opname}"));
        let ok = if opname == "ticket" {
            let seq = op["seq"].as_i64().unwrap_or(2);
            w.log.push(op.clone());
            #[allow(deprecated)]
            let r = w.mem().apply_ticket(Ticket { issuer: "verif".into(), seq_no: seq, expires_in_secs: 0, capacity_bytes: op["capacity"].as_u64() });
            r.is_ok()
        } else {
            exec_op(w, &cfg, op)
        };
        mark(&format!("OP_END {i} {}", if ok { "ok" } else { "err" }));
        let ticket = w.mem.as_ref().map(|m| m.current_ticket().seq_no);
        let wal = w.mem.as_ref().map(|m| { let st = memvid_core::verif_hooks::handle_state(m); json!({"write_head": st[0], "pending_bytes": st[2], "sequence": st[3], "wal_size": st[6]}) });
        states.push(json!({"op_index": i, "op": opname, "ok": ok, "docs": doc_state(w, contents), "ticket_seq": ticket, "wal": wal}));
        ok && !w.failed
    };
    let (mut edge_k, mut edge_puts, mut edge_probe, mut edge_aim, mut edge_hits): (Option<i64>, u32, Option<(u64, u64, u64)>, Option<(usize, u64)>, Vec<usize>) = (None, 0, None, None, Vec::new());
    if step(&mut w, 0, &json!({"op": "create"}), &mut contents, &mut states) {
        for i in 1..=ops {
            w.rep.eval();
            let roll = w.rng.below(100);
            let active: Vec<u64> = w.model.frames.iter().filter(|m| m.status == FrameStatus::Active && !m.is_chunk && !w.has_pending_op_on(m.id)).map(|m| m.id).collect();
            let n = w.counter + 1;
            // "wrap" profile: commit just before the head reaches the region end, so that the next append wraps to the
            // region start (an append that finds pending records in its way grows the region instead)
            let near_end = profile == "wrap" && w.mem.as_ref().is_some_and(|m| { let st = memvid_core::verif_hooks::handle_state(m); st[2] > 0 && st[0] + 9000 > st[6] });
            // "reuse" profile: metadata-only updates of older, un-chunked documents (the new version re-uses the stored payload of the
            // old one, so a higher frame id points at a lower offset) with other documents stored behind them
            let reuse_target: Option<u64> = if profile == "reuse" && i % 3 == 0 {
                active.iter().copied().filter(|t| w.model.frames.get(*t as usize).is_some_and(|m| m.chunk_children.is_empty())).min()
            } else { None };
            // "tomb" profile: put, put, put, commit, then a delete and an update that stay in the log (seed images for the
            // recovery checks: the replay has to apply a tombstone and an update, not just inserts)
            let tomb: Option<Value> = if profile == "tomb" {
                Some(match i {
                    1..=3 => Value::Null, // a put, generated below
                    4 => json!({"op": "commit"}),
                    5 => json!({"op": "delete", "target": active.first().copied().unwrap_or(0)}),
                    6 => { let token = w.next_token(); json!({"op": "update", "target": active.get(1).copied().unwrap_or(1), "gen": w.rng.next(), "token": token, "title": "Upd"}) }
                    _ => json!({"op": "commit"}),
                })
            } else { None };
            // "bigblob" profile: a small document, a 1.2 MiB binary document (stored uncompressed, read through the streaming blob
            // reader), another small one, commit
            let bigblob: Option<Value> = if profile == "bigblob" {
                let token = w.next_token();
                Some(match i {
                    2 => json!({"op": "put", "token": token, "uri": "mv2://docs/BigBlob", "ts": 1_700_000_000 + n as i64 * 10, "instant": false, "gen": w.rng.next(), "bin_len": 1_200_000}),
                    4 => json!({"op": "commit"}),
                    _ => { let len = w.rng.usize(40, 300); json!({"op": "put", "token": token, "uri": format!("mv2://docs/Small{n}"), "ts": 1_700_000_000 + n as i64 * 10, "instant": false, "gen": w.rng.next(), "text": text_of(&mut w.rng, len, &token)}) }
                })
            } else { None };
            // "edge" profile: incompressible records with a commit after every second put; the overhead of a log record over its
            // payload is measured from the handle's own counters, and once the head is past a third of the region a put is sized
            // so that its record ends 0..47 bytes before the region end (the place where no end-of-log sentinel fits) while it is
            // still pending. The put after it finds the region full and grows it.
            let edge: Option<Value> = if profile == "edge" {
                let st = w.mem.as_ref().map(|m| memvid_core::verif_hooks::handle_state(m)).unwrap_or_default();
                let (head, pending, size) = (st.first().copied().unwrap_or(0), st.get(2).copied().unwrap_or(0), st.get(6).copied().unwrap_or(0));
                let remaining = if head == 0 && pending > 0 { 0 } else { size.saturating_sub(head) };
                let token = w.next_token();
                let put = |w: &mut World<'_>, len: u64| json!({"op": "put", "token": token, "uri": format!("mv2://docs/Doc{n:04}"), "ts": 1_700_000_000 + n as i64 * 10, "instant": false, "gen": w.rng.next(), "title": format!("Title {n:04}"), "tags": Vec::<String>::new(), "bin_len": len});
                let landing = edge_k.filter(|k| pending == 0 && head > 0 && remaining * 10 <= size * 7 && remaining as i64 - k >= 347 && remaining as i64 - k <= 60_000);
                Some(if let Some(k) = landing {
                    let r = [0i64, 0, 1, 24, 47, w.rng.below(48) as i64][w.rng.below(6) as usize];
                    edge_puts = if w.rng.chance(1, 2) { 2 } else { 1 }; // next: a commit, or one more put (finds the region full, grows it) and then a commit
                    edge_aim = Some((i, size));
                    put(&mut w, (remaining as i64 - k - r) as u64)
                } else if edge_puts >= 2 && pending > 0 {
                    edge_puts = 0;
                    json!({"op": "commit"})
                } else {
                    edge_puts += 1;
                    let len = w.rng.usize(3000, 6000) as u64;
                    edge_probe = Some((len, pending, size));
                    put(&mut w, len)
                })
            } else { None };
            let op = if let Some(v) = edge {
                v
            } else if let Some(v) = bigblob {
                v
            } else if let Some(v) = tomb.clone().filter(|v| !v.is_null()) {
                v
            } else if near_end {
                json!({"op": "commit"})
            } else if let Some(t) = reuse_target {
                let token = w.next_token();
                json!({"op": "update", "target": t, "gen": None::<u64>, "token": token, "title": format!("Retitled {n}")})
            } else if profile == "reuse" && i % 3 == 2 {
                json!({"op": "commit"})
            } else if roll < 50 || active.is_empty() || (profile == "reuse" && i % 3 == 1) || tomb.is_some() {
                let token = w.next_token();
                let class = if profile == "tiny" || profile == "reuse" || profile == "tomb" { [0u64, 1, 2, 3, 6, 8, 0, 4][w.rng.below(8) as usize] } else if profile == "wrap" || profile == "churn" { [20u64, 20, 20, 0, 5][w.rng.below(5) as usize] } else { w.rng.below(if profile == "corpus" { 9 } else { 10 }) };
                let mut op = json!({"op": "put", "token": token, "uri": format!("mv2://{}/Doc{n}", w.rng.pick(&["docs", "Notes"])), "ts": 1_700_000_000 + n as i64 * 10, "instant": w.rng.chance(1, 4), "gen": w.rng.next(),
                    "title": format!("Title {n}"), "tags": if w.rng.chance(1, 2) { vec![format!("tag{}", n % 3)] } else { vec![] }});
                match class {
                    0..=3 => { let len = w.rng.usize(20, 600); op["text"] = json!(text_of(&mut w.rng, len, &token)); }
                    4 => { let len = w.rng.usize(2380, 2420); op["text"] = json!(text_of(&mut w.rng, len, &token)); }
                    5 => { let len = w.rng.usize(2600, 5000); op["text"] = json!(text_of(&mut w.rng, len, &token)); }
                    6 => { op["bin_len"] = json!(w.rng.usize(1, 900)); }
                    // incompressible 3-6 KiB records: with a commit every few puts the 64 KiB log wraps within ~20 puts
                    20 => { op["bin_len"] = json!(w.rng.usize(3000, 6000)); }
                    7 => { op["bin_len"] = json!(w.rng.usize(14_000, 17_000)); }
                    8 => { op["text"] = json!(format!("Carol{} works at Globex Corp. {}", token.replace(|c: char| c.is_ascii_digit(), "x"), text_of(&mut w.rng, 60, &token))); op["emb"] = json!(vec![n as f32, 1.0, 0.5, 0.25]); }
                    _ => { op["bin_len"] = json!(w.rng.usize(50_000, 70_000)); }
                }
                op
            } else if roll < 60 {
                let token = w.next_token();
                let target = w.rng.pick(&active);
                // a payload-less update of a chunked document loses its content (known finding of C07); the file-level engines
                // are about other things, so they give chunked documents a new payload
                let chunked = w.model.frames.get(target as usize).is_some_and(|m| !m.chunk_children.is_empty());
                let with_payload = w.rng.chance(1, 2) || chunked;
                json!({"op": "update", "target": target, "gen": if with_payload { Some(w.rng.next()) } else { None }, "token": token, "title": if w.rng.chance(1, 2) { Some(format!("Upd {n}")) } else { None }})
            } else if roll < 68 {
                json!({"op": "delete", "target": w.rng.pick(&active)})
            } else if roll < 88 {
                json!({"op": "commit"})
            } else if roll < 92 {
                ticket_seq += 1;
                json!({"op": "ticket", "seq": ticket_seq, "capacity": 200u64 << 20})
            } else if roll < 96 && profile != "corpus" {
                json!({"op": "vacuum"})
            } else {
                json!({"op": "reopen"})
            };
            if !step(&mut w, i, &op, &mut contents, &mut states) { break; }
            if profile == "edge" {
                let st = w.mem.as_ref().map(|m| memvid_core::verif_hooks::handle_state(m)).unwrap_or_default();
                let (head, pending, size) = (st.first().copied().unwrap_or(0), st.get(2).copied().unwrap_or(0), st.get(6).copied().unwrap_or(0));
                // record overhead = growth of the pending byte count minus the payload length (only when nothing else happened)
                if let Some((len, before, size_before)) = edge_probe.take() {
                    if size == size_before && pending > before { edge_k = Some((pending - before) as i64 - len as i64); }
                }
                if let Some((at, size_before)) = edge_aim.take() {
                    let tail = if head == 0 && pending > 0 { 0 } else { size.saturating_sub(head) };
                    if size == size_before && pending > 0 && tail < 48 { w.rep.count("edge_records_ending_in_last_48_bytes"); w.rep.count(&format!("edge_tail[{tail}]")); edge_hits.push(at); } else { w.rep.count("edge_attempts_missed"); }
                }
            }
        }
        if profile == "corpus" || profile == "tiny" || profile == "reuse" || profile == "bigblob" || args.flag("final-commit") {
            let i = states.len();
            let _ = step(&mut w, i, &json!({"op": "commit"}), &mut contents, &mut states);
        }
        // compaction rewrites every kept payload: where each one lands must not depend on the run
        if args.flag("final-vacuum") && !w.failed {
            let i = states.len();
            let _ = step(&mut w, i, &json!({"op": "vacuum"}), &mut contents, &mut states);
        }
    }
    if let Some(p) = args.str("states") {
        let _ = std::fs::write(p, serde_json::to_string(&json!({"seed": seed, "file": name, "states": states, "history": w.log, "edge_ops": edge_hits})).unwrap_or_default());
    }
    // logical digest of the final state (C23) through the live handle
    if let Some(p) = args.str("digest") {
        let d = w.mem.as_mut().map(|m| logical_digest(m)).unwrap_or(Value::Null);
        let _ = std::fs::write(p, serde_json::to_string(&d).unwrap_or_default());
    }
    w.rep.count("histories");
    let fp = crate::h64(serde_json::to_string(&w.log).unwrap_or_default().as_bytes());
    w.mem = None; // the file stays
    drop(w);
    rep.nontrivial(fp);
    rep.nontrivial(fp ^ 1);
    rep
}

/// Everything observable through the API, for comparing two executions.
pub fn logical_digest(mem: &mut Memvid) -> Value {
    let n = mem.frame_count() as u64;
    let mut frames = Vec::new();
    for id in 0..n {
        if let Ok(f) = mem.frame_by_id(id) {
            let payload = mem.frame_canonical_payload(id).map(|b| hex_digest(&b)).unwrap_or_else(|e| format!("err:{}", super::hist::err_kind(&e)));
            frames.push(json!({"id": id, "uri": f.uri, "status": format!("{:?}", f.status), "role": format!("{:?}", f.role), "parent": f.parent_id, "ts": f.timestamp, "title": f.title, "tags": f.tags, "labels": f.labels,
                "supersedes": f.supersedes, "superseded_by": f.superseded_by, "payload": payload, "search_text": f.search_text.as_ref().map(|t| hex_digest(t.as_bytes())), "content_dates": f.content_dates, "enc": format!("{:?}", f.canonical_encoding)}));
        }
    }
    let timeline: Vec<(u64, i64)> = mem.timeline(TimelineQuery { limit: None, since: None, until: None, reverse: false }).map(|v| v.iter().map(|e| (e.frame_id, e.timestamp)).collect()).unwrap_or_default();
    let mut searches = Vec::new();
    for q in super::hist::WORDS.iter().take(8) {
        let r = SearchRequest { query: q.to_string(), top_k: 100, snippet_chars: 80, uri: None, scope: None, cursor: None, as_of_frame: None, as_of_ts: None, no_sketch: true, acl_context: None, acl_enforcement_mode: Default::default() };
        let hits: Vec<(u64, (usize, usize))> = mem.search(r).map(|x| x.hits.iter().map(|h| (h.frame_id, h.range)).collect()).unwrap_or_default();
        searches.push(json!({"q": q, "hits": hits}));
    }
    let vec_hits: Vec<(u64, u32)> = mem.search_vec(&[3.0, 1.0, 0.5, 0.25], 10).map(|h| h.iter().map(|x| (x.frame_id, x.distance.to_bits())).collect()).unwrap_or_default();
    let cards: Vec<String> = mem.memories().cards().iter().map(|c| format!("{}|{}|{}|{}|{}", c.entity, c.slot, c.value, c.source_frame_id, c.created_at)).collect();
    let stats = mem.stats().ok().map(|s| json!({"frames": s.frame_count, "active": s.active_frame_count, "payload_bytes": s.payload_bytes, "vectors": s.vector_count, "seq_no": s.seq_no}));
    let _ = FrameRole::Document;
    json!({"frames": frames, "timeline": timeline, "searches": searches, "vector": vec_hits, "cards": cards, "stats": stats})
}
