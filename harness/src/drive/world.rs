//! A real `Memvid` in a private directory plus the sequential reference model that shadows it.
//!
//! The model never predicts *when* pending operations become visible (auto-checkpoints, WAL growth
//! and replay-on-open decide that); after every call it accepts "nothing newly visible" or
//! "everything pending became visible" and synchronises. Any other state is a violation.
//! The frame *structure* of a put (document + chunk frames) is discovered from the real memory:
//! the document must sit at the id `next_frame_id()` returned before the put, and its chunks are
//! the immediately following DocumentChunk frames whose parent is that id.

use std::collections::BTreeMap;
use std::io::Read;
use std::path::{Path, PathBuf};

use memvid_core::types::{Frame, FrameRole, FrameStatus, PutOptions};
use memvid_core::{Memvid, normalize_text};
use serde_json::{Value, json};

use crate::{Report, Rng, hex_digest};

#[derive(Clone, Debug)]
pub struct PutSpec {
    pub payload: Vec<u8>,
    pub uri: Option<String>,
    pub title: Option<String>,
    pub track: Option<String>,
    pub kind: Option<String>,
    pub tags: Vec<String>,
    pub labels: Vec<String>,
    pub extra: BTreeMap<String, String>,
    pub timestamp: i64,
    pub role: FrameRole,
    pub parent_id: Option<u64>,
    pub embedding: Option<Vec<f32>>,
    pub chunk_embeddings: Option<Vec<Vec<f32>>>,
    pub instant_index: bool,
    pub token: String,
    pub class: &'static str,
    pub extract_triplets: bool,
    pub enable_embedding: bool,
}

impl PutSpec {
    pub fn options(&self) -> PutOptions {
        let mut o = PutOptions::default();
        o.timestamp = Some(self.timestamp);
        o.uri = self.uri.clone();
        o.title = self.title.clone();
        o.track = self.track.clone();
        o.kind = self.kind.clone();
        o.tags = self.tags.clone();
        o.labels = self.labels.clone();
        o.extra_metadata = self.extra.clone();
        o.role = self.role;
        o.parent_id = self.parent_id;
        o.instant_index = self.instant_index;
        o.extract_triplets = self.extract_triplets;
        o.enable_embedding = self.enable_embedding;
        o
    }
    pub fn to_json(&self) -> Value {
        json!({"class": self.class, "len": self.payload.len(), "b3": hex_digest(&self.payload), "uri": self.uri, "ts": self.timestamp,
               "role": format!("{:?}", self.role), "parent": self.parent_id, "emb": self.embedding.as_ref().map(Vec::len),
               "instant": self.instant_index, "token": self.token})
    }
}

#[derive(Clone, Debug)]
pub struct UpdateSpec {
    pub target: u64,
    pub payload: Option<Vec<u8>>,
    pub title: Option<String>,
    pub tags: Vec<String>,
    pub embedding: Option<Vec<f32>>,
    pub token: String,
}

#[derive(Clone, Debug)]
pub enum Pending {
    Put { spec: PutSpec, predicted_id: u64 },
    Update { spec: UpdateSpec, predicted_id: u64 },
    Delete { target: u64 },
}

#[derive(Clone, Debug)]
pub struct MFrame {
    pub id: u64,
    pub uri: String,
    pub role: FrameRole,
    pub parent: Option<u64>,
    pub status: FrameStatus,
    pub supersedes: Option<u64>,
    pub superseded_by: Option<u64>,
    pub timestamp: i64,
    /// expected canonical payload when the frame is stored whole
    pub payload: Option<Vec<u8>>,
    /// document whose content lives in chunk frames
    pub chunk_children: Vec<u64>,
    pub is_chunk: bool,
    pub raw_text: Option<String>,
    pub embedding: Option<Vec<f32>>,
    pub title: Option<String>,
    pub track: Option<String>,
    pub kind: Option<String>,
    pub tags_given: Vec<String>,
    pub labels_given: Vec<String>,
    pub extra_given: BTreeMap<String, String>,
    pub token: String,
    pub class: &'static str,
    /// first-seen real attributes (C06 stability)
    pub fingerprint: Option<(String, [u8; 32], u64, u64)>,
}

#[derive(Default, Clone)]
pub struct Model {
    pub frames: Vec<MFrame>,
    pub pending: Vec<Pending>,
}

pub struct World<'a> {
    pub dir: PathBuf,
    pub path: PathBuf,
    pub mem: Option<Memvid>,
    pub model: Model,
    pub rng: Rng,
    pub rep: &'a mut Report,
    pub log: Vec<Value>,
    pub failed: bool,
    pub counter: u64,
    pub batch: bool,
    pub second_op_on_uncommitted_target: bool,
    /// which two operations met on one un-committed target first ("update-then-delete", ...)
    pub second_op_kind: String,
    pub commits_done: u64,
    pub saw_growth: bool,
}

pub fn default_uri(id: u64) -> String {
    format!("mv2://frames/{id}")
}

impl<'a> World<'a> {
    pub fn new(dir: &Path, name: &str, rng: Rng, rep: &'a mut Report) -> Self {
        World {
            dir: dir.to_path_buf(),
            path: dir.join(name),
            mem: None,
            model: Model::default(),
            rng,
            rep,
            log: Vec::new(),
            failed: false,
            counter: 0,
            batch: false,
            second_op_on_uncommitted_target: false,
            second_op_kind: String::new(),
            commits_done: 0,
            saw_growth: false,
        }
    }

    pub fn detail(&self) -> Value {
        json!({"mode": "drive", "history": self.log})
    }

    pub fn violation(&mut self, key: &str, what: String) {
        let d = self.detail();
        // A history in which a frame received a second update/delete while an earlier one was
        // still un-committed is its own diagnosis class (the API accepts it because it checks the
        // committed state only); keep it apart from failures of ordinary histories.
        let key = if self.second_op_on_uncommitted_target && (key.starts_with("C01:") || key.starts_with("C06:") || key.starts_with("C08:")) {
            format!("{key}:second-op-on-uncommitted-target:{}", self.second_op_kind)
        } else {
            key.to_string()
        };
        self.rep.violation(&key, what, d);
        self.failed = true;
    }

    /// Attach an observation to the last logged operation (ignored by replay).
    pub fn note(&mut self, v: Value) {
        if let Some(last) = self.log.last_mut() {
            if let (Some(obj), Some(add)) = (last.as_object_mut(), v.as_object()) {
                for (k, x) in add {
                    obj.insert(format!("_{k}"), x.clone());
                }
            }
        }
    }

    /// Does an un-committed update/delete already target this frame?
    /// Kind of the first un-committed operation on `id` ("update" / "delete").
    pub fn pending_op_kind_on(&self, id: u64) -> Option<&'static str> {
        self.model.pending.iter().find_map(|p| match p {
            Pending::Update { spec, .. } if spec.target == id => Some("update"),
            Pending::Delete { target } if *target == id => Some("delete"),
            _ => None,
        })
    }

    pub fn has_pending_op_on(&self, id: u64) -> bool {
        self.model.pending.iter().any(|p| match p {
            Pending::Update { spec, .. } => spec.target == id,
            Pending::Delete { target } => *target == id,
            Pending::Put { .. } => false,
        })
    }

    pub fn mem(&mut self) -> &mut Memvid {
        self.mem.as_mut().expect("open handle")
    }

    pub fn next_token(&mut self) -> String {
        self.counter += 1;
        format!("tok{}q{}", self.counter, self.counter * 7 + 3)
    }

    // ------------------------------------------------------------------ synchronisation

    /// Reconcile the model with what the real memory now exposes. Returns false on a violation.
    pub fn sync(&mut self, ctx: &str) -> bool {
        if self.mem.is_none() || self.failed {
            return !self.failed;
        }
        let n_model = self.model.frames.len() as u64;
        let n_real = self.mem().frame_count() as u64;
        if self.model.pending.is_empty() {
            if n_real != n_model {
                self.violation("C01:frame-count-changed-without-pending-ops", format!("{ctx}: memory has {n_real} frames, model {n_model}"));
                return false;
            }
            return true;
        }
        // walk pending ops against the real frame table
        let mut cursor = n_model;
        let mut flags: Vec<bool> = Vec::new();
        let mut plans: Vec<(u64, Vec<u64>)> = Vec::new(); // (doc id, chunk ids) per insert
        let pending = self.model.pending.clone();
        for op in &pending {
            match op {
                Pending::Put { .. } | Pending::Update { .. } => {
                    if cursor < n_real {
                        let doc = cursor;
                        let mut chunks = Vec::new();
                        let mut j = cursor + 1;
                        while j < n_real {
                            match self.mem().frame_by_id(j) {
                                Ok(f) if f.role == FrameRole::DocumentChunk && f.parent_id == Some(doc) => {
                                    chunks.push(j);
                                    j += 1;
                                }
                                _ => break,
                            }
                        }
                        cursor = j;
                        flags.push(true);
                        plans.push((doc, chunks));
                    } else {
                        flags.push(false);
                        plans.push((u64::MAX, vec![]));
                    }
                }
                Pending::Delete { target } => {
                    let st = self.mem().frame_by_id(*target).map(|f| f.status);
                    flags.push(matches!(st, Ok(FrameStatus::Deleted)));
                    plans.push((u64::MAX, vec![]));
                }
            }
        }
        let any = flags.iter().any(|f| *f);
        let all = flags.iter().all(|f| *f);
        if !any {
            if n_real != n_model {
                self.violation("C01:unexpected-frames", format!("{ctx}: {n_real} frames present, model has {n_model} and no pending insert accounts for them"));
                return false;
            }
            return true;
        }
        if !all {
            let kinds: Vec<String> = pending.iter().zip(&flags).map(|(p, f)| format!("{}={}", match p { Pending::Put{..} => "put", Pending::Update{..} => "update", Pending::Delete{..} => "delete" }, f)).collect();
            self.violation("C01:partial-visibility", format!("{ctx}: only part of the pending operations became visible: {kinds:?}"));
            return false;
        }
        if cursor != n_real {
            self.violation("C01:extra-frames", format!("{ctx}: {n_real} frames present, acknowledged operations account for {cursor}"));
            return false;
        }
        // materialise
        self.rep.count("materialisations");
        for (op, (doc, chunks)) in pending.iter().zip(plans.iter()) {
            match op {
                Pending::Put { spec, predicted_id } => {
                    if *predicted_id != *doc {
                        // the prediction is C06's subject; a run for another property notes it and goes on with the real id
                        // (the model takes its ids from the frame table), so that its own monitors still get to judge
                        if self.rep.property == "C06" || self.rep.property == "C01" {
                            self.violation("C06:next-frame-id-mismatch", format!("next_frame_id() before the put said {predicted_id}, document got id {doc}"));
                            return false;
                        }
                        self.rep.count("other_property_violations[C06:next-frame-id-mismatch]");
                    }
                    self.rep.count("id_predictions_checked");
                    self.materialise_insert(*doc, chunks, spec.clone(), None);
                }
                Pending::Update { spec, predicted_id } => {
                    if *predicted_id != *doc {
                        if self.rep.property == "C06" || self.rep.property == "C01" {
                            self.violation("C06:next-frame-id-mismatch", format!("next_frame_id() before the update said {predicted_id}, new version got id {doc}"));
                            return false;
                        }
                        self.rep.count("other_property_violations[C06:next-frame-id-mismatch]");
                    }
                    self.rep.count("id_predictions_checked");
                    let old = self.model.frames[spec.target as usize].clone();
                    let put = PutSpec {
                        payload: spec.payload.clone().unwrap_or_default(),
                        uri: Some(old.uri.clone()),
                        title: spec.title.clone().or(old.title.clone()),
                        track: old.track.clone(),
                        kind: old.kind.clone(),
                        tags: if spec.tags.is_empty() { old.tags_given.clone() } else { spec.tags.clone() },
                        labels: old.labels_given.clone(),
                        extra: old.extra_given.clone(),
                        timestamp: old.timestamp,
                        role: old.role,
                        parent_id: None,
                        embedding: spec.embedding.clone().or(old.embedding.clone()),
                        chunk_embeddings: None,
                        instant_index: true,
                        token: spec.token.clone(),
                        class: if spec.payload.is_none() { "payloadless-update" } else { "update-with-payload" },
                        extract_triplets: true,
                        enable_embedding: false,
                    };
                    self.materialise_insert(*doc, chunks, put, Some((spec.target, spec.payload.is_none())));
                }
                Pending::Delete { target } => {
                    self.model.frames[*target as usize].status = FrameStatus::Deleted;
                }
            }
        }
        self.model.pending.clear();
        true
    }

    fn materialise_insert(&mut self, doc: u64, chunks: &[u64], spec: PutSpec, supersedes: Option<(u64, bool)>) {
        let text = String::from_utf8(spec.payload.clone()).ok();
        let (payload, raw_text) = match supersedes {
            Some((old, true)) => (self.model.frames[old as usize].payload.clone(), self.model.frames[old as usize].raw_text.clone()),
            // "stored whole": binary data (even when its extracted text is chunked for search) and
            // UTF-8 text that was not split; only split UTF-8 text is judged against its chunks
            _ => (if chunks.is_empty() || text.is_none() { Some(spec.payload.clone()) } else { None }, text),
        };
        let reuse_children = match supersedes {
            Some((old, true)) => self.model.frames[old as usize].chunk_children.clone(),
            _ => chunks.to_vec(),
        };
        self.model.frames.push(MFrame {
            id: doc,
            uri: spec.uri.clone().unwrap_or_else(|| default_uri(doc)),
            role: spec.role,
            parent: None,
            status: FrameStatus::Active,
            supersedes: supersedes.map(|s| s.0),
            superseded_by: None,
            timestamp: spec.timestamp,
            payload,
            chunk_children: reuse_children,
            is_chunk: false,
            raw_text,
            embedding: spec.embedding.clone(),
            title: spec.title.clone(),
            track: spec.track.clone(),
            kind: spec.kind.clone(),
            tags_given: spec.tags.clone(),
            labels_given: spec.labels.clone(),
            extra_given: spec.extra.clone(),
            token: spec.token.clone(),
            class: spec.class,
            fingerprint: None,
        });
        if let Some((old, _)) = supersedes {
            let o = &mut self.model.frames[old as usize];
            o.status = FrameStatus::Superseded;
            o.superseded_by = Some(doc);
        }
        for (i, c) in chunks.iter().enumerate() {
            let emb = spec.chunk_embeddings.as_ref().and_then(|v| v.get(i).cloned());
            self.model.frames.push(MFrame {
                id: *c,
                uri: spec.uri.as_ref().map(|u| format!("{u}#page-{}", i + 1)).unwrap_or_else(|| default_uri(*c)),
                role: FrameRole::DocumentChunk,
                parent: Some(doc),
                status: FrameStatus::Active,
                supersedes: None,
                superseded_by: None,
                timestamp: spec.timestamp,
                payload: None,
                chunk_children: vec![],
                is_chunk: true,
                raw_text: None,
                embedding: emb,
                title: None,
                track: spec.track.clone(),
                kind: spec.kind.clone(),
                tags_given: spec.tags.clone(),
                labels_given: spec.labels.clone(),
                extra_given: spec.extra.clone(),
                token: spec.token.clone(),
                class: "chunk",
                fingerprint: None,
            });
        }
        if !chunks.is_empty() {
            self.rep.count("chunked_documents");
        }
    }

    // ------------------------------------------------------------------ full comparison (C01/C06/C07)

    pub fn read_blob(&mut self, id: u64) -> Result<Vec<u8>, String> {
        let mut r = self.mem().blob_reader(id).map_err(|e| e.to_string())?;
        let mut buf = Vec::new();
        // read a few bytes, do an unrelated read through the handle, read the rest: a reader must not depend on where
        // the handle (or another reader) left the file position
        let mut head = [0u8; 5];
        let n = r.read(&mut head).map_err(|e| e.to_string())?;
        buf.extend_from_slice(&head[..n]);
        let other = if id > 0 { id - 1 } else { id + 1 };
        let _ = self.mem().frame_canonical_payload(other);
        if let Ok(mut r2) = self.mem().blob_reader(other) { let mut t = [0u8; 3]; let _ = r2.read(&mut t); }
        r.read_to_end(&mut buf).map_err(|e| e.to_string())?;
        Ok(buf)
    }

    /// Compare every model frame with the real memory. `content`: also read payloads.
    pub fn check_all(&mut self, ctx: &str, content: bool) -> bool {
        if self.failed || self.mem.is_none() {
            return !self.failed;
        }
        if !self.sync(ctx) {
            return false;
        }
        let n = self.model.frames.len();
        for i in 0..n {
            let m = self.model.frames[i].clone();
            let f: Frame = match self.mem().frame_by_id(m.id) {
                Ok(f) => f,
                Err(e) => {
                    self.violation("C01:acknowledged-frame-missing", format!("{ctx}: frame {} ({}) not readable: {e}", m.id, m.class));
                    return false;
                }
            };
            if f.id != m.id {
                self.violation("C06:frame-id-field-differs", format!("{ctx}: frame_by_id({}) returned a frame whose id is {}", m.id, f.id));
                return false;
            }
            let uri = f.uri.clone().unwrap_or_default();
            if uri != m.uri {
                self.violation("C01:uri-differs", format!("{ctx}: frame {} has uri {uri:?}, model {:?}", m.id, m.uri));
                return false;
            }
            if f.status != m.status {
                self.violation("C01:status-differs", format!("{ctx}: frame {} is {:?}, model {:?}", m.id, f.status, m.status));
                return false;
            }
            if f.role != m.role || f.parent_id != m.parent && m.is_chunk {
                self.violation("C01:role-or-parent-differs", format!("{ctx}: frame {} role {:?} parent {:?}, model role {:?} parent {:?}", m.id, f.role, f.parent_id, m.role, m.parent));
                return false;
            }
            if f.supersedes != m.supersedes || f.superseded_by != m.superseded_by {
                self.violation("C08:supersede-links-differ", format!("{ctx}: frame {} supersedes {:?} superseded_by {:?}, model {:?}/{:?}", m.id, f.supersedes, f.superseded_by, m.supersedes, m.superseded_by));
                return false;
            }
            if f.timestamp != m.timestamp {
                self.violation("C01:timestamp-differs", format!("{ctx}: frame {} timestamp {}, model {}", m.id, f.timestamp, m.timestamp));
                return false;
            }
            // identity fingerprint (C06): creation attributes never change once seen
            let fp = (uri.clone(), f.checksum, f.payload_length, f.timestamp as u64);
            match &m.fingerprint {
                None => self.model.frames[i].fingerprint = Some(fp),
                // vacuum legitimately reclaims the payload of deleted/superseded frames, so the
                // stored length is part of the identity only while the frame is active
                Some(old) if old.0 != fp.0 || old.1 != fp.1 || (old.2 != fp.2 && m.status == FrameStatus::Active) || old.3 != fp.3 => {
                    self.violation("C06:frame-identity-changed", format!("{ctx}: frame {} now has uri/checksum/length/timestamp {:?}, first seen {:?}", m.id, (&fp.0, hex_digest(&fp.1), fp.2), (&old.0, hex_digest(&old.1), old.2)));
                    return false;
                }
                _ => {}
            }
            self.rep.count("frames_compared");
            if content && m.status == FrameStatus::Active && !self.check_content(ctx, &m, &f) {
                return false;
            }
        }
        true
    }

    fn check_content(&mut self, ctx: &str, m: &MFrame, f: &Frame) -> bool {
        let canon = match self.mem().frame_canonical_payload(m.id) {
            Ok(b) => b,
            Err(e) => {
                self.violation("C07:canonical-payload-unreadable", format!("{ctx}: frame {} ({}): {e}", m.id, m.class));
                return false;
            }
        };
        if let Some(p) = &m.payload {
            self.rep.count("whole_payloads_compared");
            if &canon != p {
                let is_utf8 = std::str::from_utf8(p).is_ok();
                let key = if f.chunk_manifest.is_some() && !is_utf8 {
                    "C07:canonical!=P:binary-with-chunk-manifest".to_string()
                } else {
                    format!("C07:canonical!=P:{}:{:?}", m.class, f.canonical_encoding)
                };
                self.violation(&key, format!("{ctx}: frame {} canonical payload has {} bytes ({}), stored {} bytes ({})", m.id, canon.len(), hex_digest(&canon), p.len(), hex_digest(p)));
                return false;
            }
            match self.read_blob(m.id) {
                Ok(b) if &b == p => {}
                Ok(b) => {
                    let is_utf8 = std::str::from_utf8(p).is_ok();
                    let key = if f.chunk_manifest.is_some() && !is_utf8 { "C07:blob!=P:binary-with-chunk-manifest".to_string() } else { format!("C07:blob!=P:{}", m.class) };
                    self.violation(&key, format!("{ctx}: frame {} blob reader returned {} bytes, stored {}", m.id, b.len(), p.len()));
                    return false;
                }
                Err(e) => {
                    self.violation("C07:blob-unreadable", format!("{ctx}: frame {}: {e}", m.id));
                    return false;
                }
            }
            // stored checksum matches the stored bytes
            if f.payload_length > 0 {
                let raw = std::fs::read(&self.path).unwrap_or_default();
                let (a, b) = (f.payload_offset as usize, (f.payload_offset + f.payload_length) as usize);
                // only judge when the bytes are already in the file (pending payloads live in the log)
                if b <= raw.len() && blake3::hash(&raw[a..b]).as_bytes() != &f.checksum {
                    self.violation("C07:payload-checksum-mismatch", format!("{ctx}: frame {} checksum does not match file[{a}..{b}]", m.id));
                    return false;
                }
            }
        } else if !m.chunk_children.is_empty() {
            self.rep.count("chunked_payloads_compared");
            let mut cat = Vec::new();
            for c in &m.chunk_children {
                match self.mem().frame_canonical_payload(*c) {
                    Ok(b) => cat.extend_from_slice(&b),
                    Err(e) => {
                        self.violation("C07:chunk-unreadable", format!("{ctx}: chunk {c} of {}: {e}", m.id));
                        return false;
                    }
                }
            }
            if canon != cat {
                self.violation(&format!("C07:document!=concat(chunks):{}", m.class), format!("{ctx}: document {} canonical payload ({} bytes) differs from the concatenation of its {} chunks ({} bytes)", m.id, canon.len(), m.chunk_children.len(), cat.len()));
                return false;
            }
            if let Some(t) = &m.raw_text {
                let norm = normalize_text(t, usize::MAX).map(|n| n.text).unwrap_or_default();
                if !memvid_core::structure::detect_structure(&norm).has_structure() && cat != norm.as_bytes() {
                    self.violation("C07:chunks!=normalized-text", format!("{ctx}: document {}: chunks concatenate to {} bytes, normalized text has {}", m.id, cat.len(), norm.len()));
                    return false;
                }
            }
        }
        true
    }

    // ------------------------------------------------------------------ directory / lock probes

    pub fn listing(&self) -> Vec<String> {
        let mut v: Vec<String> = std::fs::read_dir(&self.dir)
            .map(|rd| rd.filter_map(|e| e.ok()).map(|e| e.file_name().to_string_lossy().to_string()).collect())
            .unwrap_or_default();
        v.sort();
        v
    }
}
