//! C26 — memory cards / enrichment records / enrichment-queue entries name the frame they came from.
//! C27(b) — the card set and the logic mesh survive commit, close and reopen unchanged.

use std::collections::{BTreeMap, BTreeSet};

use serde_json::{Value, json};

use super::hist::{HistCfg, exec_op, text_of};
use super::world::World;
use crate::{Report, Rng, h64};

fn letters(mut n: u64) -> String {
    let mut s = String::new();
    loop {
        s.push(char::from(b'a' + (n % 26) as u8));
        n /= 26;
        if n == 0 { break; }
    }
    s
}

fn check_derived(w: &mut World<'_>, puts: &BTreeMap<String, (bool, bool)>, ctx: &str) -> bool {
    if w.failed || w.mem.is_none() { return !w.failed; }
    // code -> document frame id, from the model
    let doc_of: BTreeMap<String, u64> = w.model.frames.iter().filter(|m| !m.is_chunk).map(|m| (m.token.clone(), m.id)).collect();
    let cards: Vec<(u64, String, String, String)> = w.mem().memories().cards().iter().map(|c| (c.source_frame_id, c.entity.clone(), c.slot.clone(), c.value.clone())).collect();
    for (src, entity, slot, value) in cards {
        // which put produced this card: its unique code occurs in the entity or the value
        let hay = format!("{} {}", entity.to_lowercase(), value.to_lowercase());
        let Some((code, _)) = puts.iter().find(|(code, _)| hay.contains(&format!("q{code}x")) || hay.contains(&format!("acme{code}"))) else { continue };
        let Some(expected) = doc_of.get(code) else { continue }; // not materialised yet
        w.rep.count("cards_checked");
        if src != *expected {
            let n_frames = w.model.frames.len() as u64;
            let cls = if src >= n_frames { "source-frame-does-not-exist" } else { "source-is-another-frame" };
            // keep going: records and queue entries are separate observations
            let d = w.detail();
            w.rep.violation(&format!("C26:card-source-frame-wrong:{cls}"), format!("{ctx}: card {entity}/{slot}={value:?} of the put whose document is frame {expected} says source_frame_id = {src} ({n_frames} frames exist)"), d);
            continue;
        }
        // a document deleted later keeps its cards; its text may no longer be readable
        if w.model.frames.get(src as usize).is_some_and(|m| m.status != memvid_core::types::FrameStatus::Active) { continue; }
        match w.mem().frame_text_by_id(src) {
            Ok(t) if t.to_lowercase().contains(&value.to_lowercase()) => {}
            Ok(_) => { w.violation("C26:frame-text-lacks-card-value", format!("{ctx}: text of frame {src} does not contain the card value {value:?}")); return false; }
            Err(e) => { w.violation("C26:source-frame-unreadable", format!("{ctx}: frame {src}: {e}")); return false; }
        }
    }
    // enrichment records
    let with_cards: BTreeSet<u64> = puts.iter().filter(|(_, (t, _))| *t).filter_map(|(c, _)| doc_of.get(c).copied()).collect();
    let all_docs: BTreeSet<u64> = doc_of.values().copied().collect();
    let pending_puts = puts.keys().any(|c| !doc_of.contains_key(c));
    for fid in w.mem().memories().enrichment_manifest().enriched_frames() {
        w.rep.count("enrichment_records_checked");
        if !with_cards.contains(&fid) && !pending_puts {
            let cls = if !all_docs.contains(&fid) { if fid >= w.model.frames.len() as u64 { "frame-does-not-exist" } else { "not-a-document-of-a-put" } } else { "document-without-cards" };
            let d = w.detail();
            w.rep.violation(&format!("C26:enrichment-record-frame-wrong:{cls}"), format!("{ctx}: an enrichment record names frame {fid}; documents that produced cards are {with_cards:?}"), d);
        }
    }
    true
}

pub fn c26(rep: &mut Report, scratch: &std::path::Path, rng: &mut Rng, histories: u64) {
    for c in ["cards_checked", "enrichment_records_checked", "queue_entries_checked", "commits_between_puts"] { rep.require(c); }
    let cfg = HistCfg { ops: 0, monitors: vec!["c01".into()], small_only: true, with_embeddings: false, maintenance: false, ts_mode: 0, check_every: 1000 };
    for h in 0..histories {
        let dir = scratch.join(format!("d{h}"));
        let _ = std::fs::create_dir_all(&dir);
        let mut w = World::new(&dir, "mem.mv2", rng.fork(), rep);
        let mut puts: BTreeMap<String, (bool, bool)> = BTreeMap::new(); // code -> (has triplet, queued for enrichment)
        if exec_op(&mut w, &cfg, &json!({"op": "create"})) {
            let n_ops = w.rng.usize(6, 16);
            let mut skip_pending = false;
            for i in 0..n_ops {
                if w.failed { break; }
                w.rep.eval();
                let roll = w.rng.below(100);
                if roll < 60 {
                    let code = letters(h * 1000 + i as u64 + 7);
                    let triplet = w.rng.chance(3, 4);
                    let queued = w.rng.chance(1, 3);
                    let filler_len = if w.rng.chance(1, 5) { w.rng.usize(2600, 3500) } else { w.rng.usize(20, 300) };
                    let filler = text_of(&mut w.rng, filler_len, "pad");
                    let text = if triplet { format!("Q{code}x works at Acme{code} Corp. {filler}") } else { format!("nothing to extract {code}. {filler}") };
                    let op = json!({"op": "put", "text": text, "token": code, "ts": 1_700_000_000 + i as i64, "uri": format!("mv2://d/{code}"), "instant": queued || w.rng.chance(1, 2), "enable_embedding": queued, "triplets": true});
                    puts.insert(code, (triplet, queued));
                    if !exec_op(&mut w, &cfg, &op) { break; }
                } else if roll < 68 {
                    // a delete between puts: tombstones go through the same log as frames, so log sequence numbers and
                    // frame ids drift apart even without a commit in between
                    let active: Vec<u64> = w.model.frames.iter().filter(|m| m.status == memvid_core::types::FrameStatus::Active && !m.is_chunk && !w.has_pending_op_on(m.id)).map(|m| m.id).collect();
                    if let Some(t) = active.first().copied() {
                        w.rep.count("deletes_between_puts");
                        if !exec_op(&mut w, &cfg, &json!({"op": "delete", "target": t})) { break; }
                    }
                } else if roll < 74 {
                    // the bulk-ingestion commit (frames applied, indexes left for later) followed by more puts, finalised further on
                    w.rep.count("skip_index_commits_between_puts");
                    if !exec_op(&mut w, &cfg, &json!({"op": "commit_skip_indexes"})) || !check_derived(&mut w, &puts, "after-commit_skip_indexes") { break; }
                    skip_pending = true;
                } else if roll < 85 {
                    w.rep.count("commits_between_puts");
                    if skip_pending { skip_pending = false; if !exec_op(&mut w, &cfg, &json!({"op": "finalize_indexes"})) { break; } }
                    if !exec_op(&mut w, &cfg, &json!({"op": "commit"})) || !check_derived(&mut w, &puts, "after-commit") { break; }
                } else if !exec_op(&mut w, &cfg, &json!({"op": "reopen"})) || !check_derived(&mut w, &puts, "after-reopen") { break; }
            }
            if !w.failed && exec_op(&mut w, &cfg, &json!({"op": "commit"})) && check_derived(&mut w, &puts, "after-final-commit") {
                // drain the enrichment queue: every entry must name the document of a put that queued
                let doc_of: BTreeMap<String, u64> = w.model.frames.iter().filter(|m| !m.is_chunk).map(|m| (m.token.clone(), m.id)).collect();
                let queued_docs: BTreeSet<u64> = puts.iter().filter(|(_, (_, q))| *q).filter_map(|(c, _)| doc_of.get(c).copied()).collect();
                let mut guard = 0;
                while let Some(task) = w.mem().next_enrichment_task() {
                    guard += 1;
                    if guard > 200 { break; }
                    w.rep.count("queue_entries_checked");
                    if !queued_docs.contains(&task.frame_id) {
                        let cls = if task.frame_id >= w.model.frames.len() as u64 { "frame-does-not-exist" } else { "not-the-queued-document" };
                        let d = w.detail();
                        w.rep.violation(&format!("C26:enrichment-queue-frame-wrong:{cls}"), format!("queue entry names frame {}, documents queued for enrichment are {queued_docs:?}", task.frame_id), d);
                    }
                    w.mem().complete_enrichment_task(task.frame_id);
                }
            }
        }
        let fp = h64(serde_json::to_string(&w.log).unwrap_or_default().as_bytes());
        if w.rep.samples.len() < 2 {
            let head: Vec<Value> = w.log.iter().take(5).map(|o| { let mut o = o.clone(); if let Some(t) = o.get("text").and_then(Value::as_str) { o["text"] = json!(t.chars().take(60).collect::<String>()); } o }).collect();
            w.rep.sample(json!({"history_head": head, "puts": puts.len()}));
        }
        w.mem = None;
        rep.nontrivial(fp);
        rep.count("histories");
        let _ = std::fs::remove_dir_all(&dir);
    }
}

// C27(b) lives in cards.rs

