//! History driver (engine E1) and the Memvid-level monitors.
//! usage: mvdrive <mode> --seed N --scratch DIR --out report.json [mode options]

pub mod hist;
pub mod sidecar;
pub mod timeline;
pub mod vector;
pub mod world;

use std::path::PathBuf;

use serde_json::Value;

use crate::{Args, Report, Rng, h64};

fn monitors_for(property: &str) -> &'static str {
    match property {
        "C07" => "c01,c07",
        "C19" => "c01,c19",
        "C17" => "c01,c17",
        _ => "c01,c06",
    }
}

fn cfg_from(args: &Args, property: &str) -> hist::HistCfg {
    hist::HistCfg {
        ops: args.u64("ops", 40) as usize,
        monitors: args.str("monitors").unwrap_or(monitors_for(property)).split(',').map(str::to_string).collect(),
        small_only: args.flag("small"),
        with_embeddings: args.flag("embeddings"),
        maintenance: !args.flag("no-maintenance"),
        ts_mode: args.u64("ts-mode", 0),
        check_every: args.u64("check-every", 4).max(1),
    }
}

const HIST_RULE: &str = "random histories of create/put (13 payload classes sized to fill, wrap and grow the 64 KiB log)/update/delete/failing calls/commit/drop+reopen/vacuum/doctor/batch mode against a sequential reference model; a case is one operation; distinct = distinct histories";

fn hist_mode(args: &Args, property: &str) -> Report {
    let seed = args.u64("seed", 1);
    let scratch = PathBuf::from(args.str("scratch").unwrap_or("."));
    let cfg = cfg_from(args, property);
    let mut rep = Report::new(property, &format!("history[{}]", cfg.monitors.join(",")), seed, HIST_RULE);
    let histories = args.u64("histories", 3);
    let mut rng = Rng::new(seed);
    for h in 0..histories {
        let dir = scratch.join(format!("h{h}"));
        let _ = std::fs::create_dir_all(&dir);
        let fp = hist::run_history(&mut rep, &dir, rng.fork(), &cfg);
        rep.nontrivial(fp ^ h64(&h.to_le_bytes()));
        rep.count("histories");
        let _ = std::fs::remove_dir_all(&dir);
    }
    for c in ["puts_acknowledged", "commits", "reopens", "materialisations", "frames_compared"] {
        rep.require(c);
    }
    rep
}

pub fn main() {
    let args = Args::parse();
    let mode = args.pos.first().cloned().unwrap_or_default();
    let out = args.str("out").map(str::to_string);
    std::panic::set_hook(Box::new(|info| {
        if std::env::var("MVDRIVE_PANIC_TRACE").is_ok() {
            eprintln!("{info}");
        }
    }));
    if std::env::var("MVDRIVE_PHASES").is_ok() {
        memvid_core::verif_hooks::set_phase_sink(Some(|name, enter| eprintln!("PHASE {} {name}", if enter { "enter" } else { "exit " })));
    }
    let rep = match mode.as_str() {
        "hist" => {
            let property = args.str("property").unwrap_or("C01").to_string();
            hist_mode(&args, &property)
        }
        "replay" => {
            let property = args.str("property").unwrap_or("C01").to_string();
            let scratch = PathBuf::from(args.str("scratch").unwrap_or("."));
            let mut rep = Report::new(&property, "history-replay", 0, "replay of one recorded history");
            let detail: Value = args.str("replay").and_then(|p| std::fs::read_to_string(p).ok()).and_then(|s| serde_json::from_str(&s).ok()).unwrap_or(Value::Null);
            let ops: Vec<Value> = detail.get("history").and_then(Value::as_array).cloned().unwrap_or_default();
            let cfg = cfg_from(&args, &property);
            let dir = scratch.join("replay");
            let _ = std::fs::create_dir_all(&dir);
            let after: Box<dyn Fn(&mut world::World<'_>, &str) -> bool> = match property.as_str() {
                "C15" => Box::new(|w, name| match name {
                    "commit" => timeline::check_timeline(w, "after-commit"),
                    "reopen" => timeline::check_timeline(w, "after-reopen"),
                    "doctor" => timeline::check_timeline(w, "after-doctor"),
                    "commit_skip_indexes" => w.sync("after commit_skip_indexes") && timeline::check_timeline(w, "time-index-absent"),
                    _ => true,
                }),
                _ => Box::new(|_, _| true),
            };
            hist::replay_history(&mut rep, &dir, &ops, &cfg, after.as_ref());
            if std::env::var("MVDRIVE_KEEP").is_err() {
                let _ = std::fs::remove_dir_all(&dir);
            }
            rep
        }
        "c15" => {
            let seed = args.u64("seed", 1);
            let scratch = PathBuf::from(args.str("scratch").unwrap_or("."));
            let mut rep = Report::new("C15", "timeline", seed, "random histories with explicit timestamps (negative, equal, i64 extremes), documents, chunked documents, extracted images with a parent, deletes and updates; after every commit / reopen / doctor and with the time index absent: unlimited forward and reverse timelines plus 4 random since/until/limit/reverse queries; a case is one operation; distinct = distinct histories");
            timeline::run(&mut rep, &scratch, &mut Rng::new(seed), args.u64("histories", 3), args.u64("ops", 30) as usize);
            rep
        }
        "c13" => {
            let seed = args.u64("seed", 1);
            let scratch = PathBuf::from(args.str("scratch").unwrap_or("."));
            let mut rep = Report::new("C13", "vector-exact-nn", seed, "random embedding sets (dimension 1..64, 0..max-m vectors incl. duplicates, zero vectors, +-1e18, tie-heavy grids) x 6 queries with k in 0..m+3 judged against an f64 reference, wrong-dimension probe, identical results after reopen (rw and ro); a case is one query; distinct = distinct embedding sets");
            vector::c13(&mut rep, &scratch, &mut Rng::new(seed), args.u64("cases", 6), args.u64("max-m", 120) as usize);
            rep
        }
        "c14" => {
            let seed = args.u64("seed", 1);
            let scratch = PathBuf::from(args.str("scratch").unwrap_or("."));
            let config = if cfg!(feature = "hnsw") { "hnsw_bench" } else { "default" };
            let sizes: Vec<usize> = args.str("sizes").unwrap_or("1,2,30,120").split(',').filter_map(|s| s.parse().ok()).collect();
            let mut rep = Report::new("C14", &format!("vector-membership[{config}]"), seed, "histories of embedded / plain puts, updates with and without a new embedding (with and without payload), deletes, until the target number of active embedded frames is reached; membership, stats().vector_count, frame_embedding and self-queries checked after commit, reopen, doctor(rebuild vec), vacuum, reopen; a case is one operation; distinct = distinct (size, history length, configuration)");
            vector::c14(&mut rep, &scratch, &mut Rng::new(seed), &sizes, config);
            rep
        }
        "sidecar" => {
            let seed = args.u64("seed", 1);
            let scratch = PathBuf::from(args.str("scratch").unwrap_or("."));
            let mut rep = Report::new("C19", "sidecar-refusal", seed, "each of the 8 forbidden sidecar names next to a committed memory x open/open_read_only/create; distinct = distinct (sidecar, api) pairs refused");
            sidecar::run(&mut rep, &scratch, &mut Rng::new(seed), args.u64("rounds", 2));
            rep
        }
        other => {
            eprintln!("unknown mode {other}");
            std::process::exit(2);
        }
    };
    rep.finish(out.as_deref());
}
