//! History driver (engine E1) and the Memvid-level monitors.
pub fn main() {}
