//! History driver (engine E1) and the Memvid-level monitors.
//! usage: mvdrive <mode> --seed N --scratch DIR --out report.json [mode options]

pub mod capsule;
pub mod cards;
pub mod derived;
pub mod enrich;
pub mod hist;
pub mod maint;
pub mod record;
pub mod search;
pub mod sidecar;
pub mod tickets;
pub mod timeline;
pub mod vector;
pub mod worker;
pub mod world;

use std::path::PathBuf;

use serde_json::Value;

use crate::{Args, Report, Rng, h64};

fn monitors_for(property: &str) -> &'static str {
    match property {
        "C07" => "c01,c07",
        "C19" => "c01,c19",
        "C17" => "c01,c17",
        _ => "c01,c06",
    }
}

fn cfg_from(args: &Args, property: &str) -> hist::HistCfg {
    hist::HistCfg {
        ops: args.u64("ops", 40) as usize,
        monitors: args.str("monitors").unwrap_or(monitors_for(property)).split(',').map(str::to_string).collect(),
        small_only: args.flag("small"),
        with_embeddings: args.flag("embeddings"),
        maintenance: !args.flag("no-maintenance"),
        ts_mode: args.u64("ts-mode", 0),
        check_every: args.u64("check-every", 4).max(1),
    }
}

const HIST_RULE: &str = "random histories of create/put (13 payload classes sized to fill, wrap and grow the 64 KiB log)/update/delete/failing calls/commit/drop+reopen/vacuum/doctor/batch mode against a sequential reference model; a case is one operation; distinct = distinct histories";

fn hist_mode(args: &Args, property: &str) -> Report {
    let seed = args.u64("seed", 1);
    let scratch = PathBuf::from(args.str("scratch").unwrap_or("."));
    let cfg = cfg_from(args, property);
    let mut rep = Report::new(property, &format!("history[{}]", cfg.monitors.join(",")), seed, HIST_RULE);
    let histories = args.u64("histories", 3);
    let mut rng = Rng::new(seed);
    if property == "C01" && !args.flag("big") {
        let dir = scratch.join("matrix");
        let _ = std::fs::create_dir_all(&dir);
        hist::second_op_matrix(&mut rep, &dir, rng.fork(), &cfg);
        let _ = std::fs::remove_dir_all(&dir);
    }
    for h in 0..histories {
        let dir = scratch.join(format!("h{h}"));
        let _ = std::fs::create_dir_all(&dir);
        let fp = if args.flag("big") { hist::run_big_history(&mut rep, &dir, rng.fork(), &cfg) } else { hist::run_history(&mut rep, &dir, rng.fork(), &cfg) };
        rep.nontrivial(fp ^ h64(&h.to_le_bytes()));
        rep.count("histories");
        let _ = std::fs::remove_dir_all(&dir);
    }
    for c in ["puts_acknowledged", "commits", "reopens", "materialisations", "frames_compared"] {
        rep.require(c);
    }
    if args.flag("big") {
        rep.monitor = format!("history-big-payloads[{}]", cfg.monitors.join(","));
        rep.rule = "histories of 4..6 incompressible puts of 2.5..9.5 MiB (the last one above 8 MiB) with small puts, commits and reopens in between: the log grows by doubling while megabytes of committed data sit behind it; same reference model and monitors; a case is one put; distinct = distinct histories".to_string();
        rep.require("multi_megabyte_puts");
    }
    rep
}

pub fn main() {
    let args = Args::parse();
    let mode = args.pos.first().cloned().unwrap_or_default();
    let out = args.str("out").map(str::to_string);
    std::panic::set_hook(Box::new(|info| {
        if std::env::var("MVDRIVE_PANIC_TRACE").is_ok() {
            eprintln!("{info}");
        }
    }));
    if std::env::var("MVDRIVE_PHASES").is_ok() {
        memvid_core::verif_hooks::set_phase_sink(Some(|name, enter| eprintln!("PHASE {} {name}", if enter { "enter" } else { "exit " })));
    }
    if mode == "c17worker" {
        worker::main(&args);
        return;
    }
    let rep = match mode.as_str() {
        "hist" => {
            let property = args.str("property").unwrap_or("C01").to_string();
            hist_mode(&args, &property)
        }
        "replay" => {
            let property = args.str("property").unwrap_or("C01").to_string();
            let scratch = PathBuf::from(args.str("scratch").unwrap_or("."));
            let mut rep = Report::new(&property, "history-replay", 0, "replay of one recorded history");
            let detail: Value = args.str("replay").and_then(|p| std::fs::read_to_string(p).ok()).and_then(|s| serde_json::from_str(&s).ok()).unwrap_or(Value::Null);
            let ops: Vec<Value> = detail.get("history").and_then(Value::as_array).cloned().unwrap_or_default();
            let cfg = cfg_from(&args, &property);
            let dir = scratch.join("replay");
            let _ = std::fs::create_dir_all(&dir);
            let after: Box<dyn Fn(&mut world::World<'_>, &str) -> bool> = match property.as_str() {
                "C15" => Box::new(|w, name| match name {
                    "commit" => timeline::check_timeline(w, "after-commit"),
                    "reopen" => timeline::check_timeline(w, "after-reopen"),
                    "doctor" => timeline::check_timeline(w, "after-doctor"),
                    "commit_skip_indexes" => w.sync("after commit_skip_indexes") && timeline::check_timeline(w, "time-index-absent"),
                    _ => true,
                }),
                _ => Box::new(|_, _| true),
            };
            hist::replay_history(&mut rep, &dir, &ops, &cfg, after.as_ref());
            if std::env::var("MVDRIVE_KEEP").is_err() {
                let _ = std::fs::remove_dir_all(&dir);
            }
            rep
        }
        "c15" => {
            let seed = args.u64("seed", 1);
            let scratch = PathBuf::from(args.str("scratch").unwrap_or("."));
            let mut rep = Report::new("C15", "timeline", seed, "random histories with explicit timestamps (negative, equal, i64 extremes), documents, chunked documents, extracted images with a parent, deletes and updates; after every commit / reopen / doctor and with the time index absent: unlimited forward and reverse timelines plus 4 random since/until/limit/reverse queries; a case is one operation; distinct = distinct histories");
            timeline::run(&mut rep, &scratch, &mut Rng::new(seed), args.u64("histories", 3), args.u64("ops", 30) as usize);
            rep
        }
        "c13" => {
            let seed = args.u64("seed", 1);
            let scratch = PathBuf::from(args.str("scratch").unwrap_or("."));
            let mut rep = Report::new("C13", "vector-exact-nn", seed, "random embedding sets (dimension 1..64, 0..max-m vectors incl. duplicates, zero vectors, +-1e18, tie-heavy grids) x 6 queries with k in 0..m+3 judged against an f64 reference, wrong-dimension probe, identical results after reopen (rw and ro); a case is one query; distinct = distinct embedding sets");
            vector::c13(&mut rep, &scratch, &mut Rng::new(seed), args.u64("cases", 6), args.u64("max-m", 120) as usize);
            rep
        }
        "c14" => {
            let seed = args.u64("seed", 1);
            let scratch = PathBuf::from(args.str("scratch").unwrap_or("."));
            let config = if cfg!(feature = "hnsw") { "hnsw_bench" } else { "default" };
            let sizes: Vec<usize> = args.str("sizes").unwrap_or("1,2,30,120").split(',').filter_map(|s| s.parse().ok()).collect();
            let mut rep = Report::new("C14", &format!("vector-membership[{config}]"), seed, "histories of embedded / plain puts, updates with and without a new embedding (with and without payload), deletes, until the target number of active embedded frames is reached; membership, stats().vector_count, frame_embedding and self-queries checked after commit, reopen, doctor(rebuild vec), vacuum, reopen; a case is one operation; distinct = distinct (size, history length, configuration)");
            vector::c14(&mut rep, &scratch, &mut Rng::new(seed), &sizes, config);
            rep
        }
        "c24" => {
            let seed = args.u64("seed", 1);
            let scratch = PathBuf::from(args.str("scratch").unwrap_or("."));
            let mut rep = Report::new("C24", "capacity", seed, "fresh memory, capacity = current payload end + delta (0..4096) granted by ticket, 2..7 incompressible puts of 1..5000 bytes with random intervening commits; after every step max(payload_offset+length) <= capacity; rejected puts leave counters unchanged; decisions compared with a twin run that commits after every put; distinct = distinct (delta, sizes, commit pattern)");
            tickets::c24(&mut rep, &scratch, &mut Rng::new(seed), args.u64("cases", 20));
            rep
        }
        "c25" => {
            let seed = args.u64("seed", 1);
            let scratch = PathBuf::from(args.str("scratch").unwrap_or("."));
            let mut rep = Report::new("C25", "tickets", seed, "histories of unsigned tickets (sequence numbers around the highest accepted, negative, i64 extremes), signed tickets (harness key installed through the cfg hook or not; one of 7 single-field tampers or none), puts, commits and reopen; a case is one step; distinct = distinct histories");
            tickets::c25(&mut rep, &scratch, &mut Rng::new(seed), args.u64("cases", 10));
            rep
        }
        "c26" => {
            let seed = args.u64("seed", 1);
            let scratch = PathBuf::from(args.str("scratch").unwrap_or("."));
            let mut rep = Report::new("C26", "derived-data", seed, "histories of puts whose text carries a rule-extractable triplet with a unique name (plain and chunked, with and without instant index / enable_embedding), commits and reopens in between so that log sequence numbers and frame ids diverge; after every commit and reopen each card, enrichment record and queue entry is matched to the document the model assigned; a case is one step; distinct = distinct histories");
            derived::c26(&mut rep, &scratch, &mut Rng::new(seed), args.u64("histories", 6));
            rep
        }
        "c27b" => {
            let seed = args.u64("seed", 1);
            let scratch = PathBuf::from(args.str("scratch").unwrap_or("."));
            let mut rep = Report::new("C27", "cards-persistence", seed, "histories of put_memory_card (all kinds, relations, optional dates/confidence), mesh node/edge edits, triplet-bearing puts, commits; at random points commit + close + reopen (read-write or read-only) and compare every card field and every mesh node/edge; a case is one step; distinct = distinct histories");
            cards::c27b(&mut rep, &scratch, &mut Rng::new(seed), args.u64("histories", 8));
            rep
        }
        "c09" | "c10" | "c11" | "c16" | "c28" | "c12" => {
            let seed = args.u64("seed", 1);
            let scratch = PathBuf::from(args.str("scratch").unwrap_or("."));
            let corpora = args.u64("corpora", 2);
            let queries = args.u64("queries", 30);
            let max_docs = args.u64("max-docs", 40) as usize;
            let mut rng = Rng::new(seed);
            let (pid, rule) = match mode.as_str() {
                "c09" => ("C09", "corpora of 1..max-docs documents (5..620 pseudo-words, some chunked); 6 planted words, each exactly once in 1..18 chosen documents; expected frames = active frames whose stored search text holds the word as a token; queried with and without the sketch pre-filter, before close and after reopen; a case is one query; distinct = distinct corpora"),
                "c10" => ("C10", "random corpora with URIs under 4 scopes, tracks, tags, labels, timestamps; random query ASTs (words, phrases, field terms, date ranges, NOT/AND/OR) x uri/scope filters x snippet sizes x top_k 0..12; every hit judged by an independent evaluator over the stored search text, filters, ranks and snippet geometry; committed state, with un-committed instant-indexed puts, after reopen; a case is one query; distinct = distinct corpora"),
                "c11" => ("C11", "random corpora and queries; random as_of_frame / as_of_ts cut-offs with and without the sketch pre-filter; both result streams paginated to exhaustion; a case is one query pair; distinct = distinct corpora"),
                "c16" => ("C16", "corpora of 10..max-docs documents over a 16-word vocabulary (so single words match many frames); page sizes 1..10; pages concatenated by following next_cursor vs one request with top_k 10000; a case is one query; distinct = distinct corpora"),
                "c28" => ("C28", "committed corpora with embeddings and deletes; a battery of 24 lexical queries (exhaustively paginated, compared as sets), 6 vector queries and 4 timelines on the live handle vs reopened read-write, read-only and four doctored copies (rebuild time / lex / vec / all); hits between put and commit judged for containing the hit text; a case is one battery; distinct = distinct corpora"),
                _ => ("C12", "corpora whose frames carry random ACL metadata (valid, missing, malformed lists, JSON-quoted, mixed case, unknown visibility) x random caller contexts x search / vec_search_with_embedding_acl / search_adaptive_acl / ask in Enforce and Audit mode; an independent reference policy decides which frames are denied; a case is one request; distinct = distinct corpora"),
            };
            let mut rep = Report::new(pid, &format!("search[{mode}]"), seed, rule);
            match mode.as_str() {
                "c09" => search::c09(&mut rep, &scratch, &mut rng, corpora, max_docs),
                "c10" => search::c10(&mut rep, &scratch, &mut rng, corpora, queries, max_docs),
                "c11" => search::c11(&mut rep, &scratch, &mut rng, corpora, queries, max_docs),
                "c16" => search::c16(&mut rep, &scratch, &mut rng, corpora, queries, max_docs),
                "c28" => search::c28(&mut rep, &scratch, &mut rng, corpora, max_docs),
                _ => search::c12(&mut rep, &scratch, &mut rng, corpora, queries, max_docs),
            }
            rep
        }
        "c08" | "c18" | "c40" | "c42" => {
            let seed = args.u64("seed", 1);
            let scratch = PathBuf::from(args.str("scratch").unwrap_or("."));
            let n = args.u64("histories", 4);
            let mut rng = Rng::new(seed);
            let (pid, rule) = match mode.as_str() {
                "c08" => ("C08", "histories of 4..12 puts (unique token per document, some chunked, some embedded, titles/tracks/kinds/tags/labels/metadata), commit, then deletes and updates (with/without payload, title, new embedding) of a random subset; after the commit and after reopen every old version is looked for through search (pre-filter on/off, paginated), search_vec, vec_search_with_embedding, search_adaptive, ask, timeline and frame_by_uri; a case is one delete/update; distinct = distinct histories"),
                "c18" => ("C18", "random committed states, half of them with extra puts still pending in the log; the file is copied as it is on disk, hashed, opened read-only, 5..30 random read calls, dropped, hashed again; then verify(deep or not) and hashed again; a case is one session; distinct = distinct histories"),
                "c40" => ("C40", "document sets of 3..25 payloads (text, chunked text, binary, with and without embeddings) ingested by plain puts + commit, by begin_batch(random options)/end_batch + commit, and by puts with 1..4 commit_skip_indexes followed by finalize_indexes; frames, timeline, lexical and vector search compared before close and after reopen; a case is one document set; distinct = distinct (set size, options)"),
                _ => ("C42", "histories of puts, deletes, updates with new payload and payload-reusing updates, commit, then vacuum (directly or through doctor); model comparison with content, searches for every token and the timeline compared before/after on the same handle and after reopen; verify(deep) must pass; a case is one delete/update; distinct = distinct histories"),
            };
            let mut rep = Report::new(pid, &format!("maintenance[{mode}]"), seed, rule);
            match mode.as_str() {
                "c08" => maint::c08(&mut rep, &scratch, &mut rng, n),
                "c18" => maint::c18(&mut rep, &scratch, &mut rng, n),
                "c40" => maint::c40(&mut rep, &scratch, &mut rng, n),
                _ => maint::c42(&mut rep, &scratch, &mut rng, n),
            }
            rep
        }
        "c29" => {
            let seed = args.u64("seed", 1);
            let scratch = PathBuf::from(args.str("scratch").unwrap_or("."));
            let sizes: Vec<usize> = args.str("sizes").unwrap_or("4,1000").split(',').filter_map(|s| s.parse().ok()).collect();
            let mut rep = Report::new("C29", "capsules", seed, "files 'MV2\\0' + random bytes of the given sizes (around the 1 MiB chunk size): lock, unlock, compare; then mutants of the capsule: header bytes (every field), every length-prefix byte, ciphertext/tag bytes, truncation at every chunk boundary, boundary +-1..4 and random offsets, chunk swap / removal / duplication, appended garbage; oracle = unlock fails and the output path is untouched; a case is one unlock; distinct = distinct rejected mutants");
            capsule::c29(&mut rep, &scratch, &mut Rng::new(seed), &sizes, args.flag("thorough"));
            rep
        }
        "c41" => {
            let seed = args.u64("seed", 1);
            let scratch = PathBuf::from(args.str("scratch").unwrap_or("."));
            let mut rep = Report::new("C41", "enrichment-worker-race", seed, "the real start_enrichment_worker thread (task_delay 0..5 ms, checkpoint interval 1..3 or 100) on Arc<Mutex<Memvid>> against a foreground history of 12..40 steps (puts that queue enrichment, plain puts, commits, searches, deletes of un-queued documents, frame reads; in a quarter of the histories also the one-shot embedding worker); pseudo-random sleeps/yields injected before each of the worker's four lock acquisitions (cfg hook) and between foreground steps; after the queue drained and the worker stopped the frame table, enrichment states, queue, worker statistics and searches are compared with the sequential model, also after reopen; a case is one foreground step; distinct = distinct interleavings (hash of the merged ordered event log of both threads)");
            if let Some(p) = args.str("replay") {
                let detail: Value = std::fs::read_to_string(p).ok().and_then(|s| serde_json::from_str(&s).ok()).unwrap_or(Value::Null);
                enrich::replay(&mut rep, &scratch, &detail);
            } else {
                enrich::c41(&mut rep, &scratch, &mut Rng::new(seed), args.u64("histories", 4));
            }
            rep
        }
        "runhist" => record::runhist(&args),
        "sidecar" => {
            let seed = args.u64("seed", 1);
            let scratch = PathBuf::from(args.str("scratch").unwrap_or("."));
            let mut rep = Report::new("C19", "sidecar-refusal", seed, "each of the 8 forbidden sidecar names next to a committed memory x open/open_read_only/create; distinct = distinct (sidecar, api) pairs refused");
            sidecar::run(&mut rep, &scratch, &mut Rng::new(seed), args.u64("rounds", 2));
            rep
        }
        other => {
            eprintln!("unknown mode {other}");
            std::process::exit(2);
        }
    };
    rep.finish(out.as_deref());
}
