//! Engine E4: controlled-vocabulary corpora, random query ASTs and an independent reference
//! evaluator. Monitors for C09 (recall), C10 (hit validity), C11 (time travel), C16 (pagination),
//! C28 (persisted == in-memory) and C12 (ACL) live here.

use std::collections::{BTreeMap, BTreeSet};

use memvid_core::types::{AclContext, AclEnforcementMode, DoctorOptions, Frame, FrameRole, FrameStatus, SearchRequest, SearchResponse, TimelineQuery};
use memvid_core::{Memvid, MemvidError};
use serde_json::{Value, json};

use super::hist::{HistCfg, exec_op};
use super::world::World;
use crate::pure::query::{self, DocView, Q};
use crate::{Report, Rng, h64};

pub fn request(q: &str, top_k: usize) -> SearchRequest {
    SearchRequest { query: q.to_string(), top_k, snippet_chars: 120, uri: None, scope: None, cursor: None, as_of_frame: None, as_of_ts: None, no_sketch: false, acl_context: None, acl_enforcement_mode: AclEnforcementMode::Audit }
}

pub struct CorpusCfg {
    pub docs: usize,
    pub acl: bool,
    pub embeddings: bool,
    pub long_docs: bool,
}

fn doc_text(rng: &mut Rng, words: usize, planted: &[String]) -> String {
    let mut out: Vec<String> = Vec::new();
    let plant_at: Vec<usize> = planted.iter().map(|_| rng.usize(0, words.max(1) - 1)).collect();
    for i in 0..words.max(1) {
        for (k, at) in plant_at.iter().enumerate() {
            if *at == i { out.push(planted[k].clone()); }
        }
        out.push(rng.pick(query::VOCAB).to_string());
        if rng.chance(1, 9) { let l = out.len() - 1; out[l].push('.'); }
    }
    out.join(" ")
}

/// ACL metadata flavours: valid, missing, malformed lists, JSON-quoted scalars, mixed case.
fn acl_metadata(rng: &mut Rng) -> BTreeMap<String, String> {
    let mut m = BTreeMap::new();
    let flavour = rng.below(12);
    if flavour == 0 { return m; } // no ACL metadata at all
    let tenant = rng.pick(&["tenant-a", "Tenant-A", "tenant-b", "\"tenant-a\"", " tenant-a "]);
    if flavour != 1 { m.insert("acl_tenant_id".to_string(), tenant.to_string()); }
    let vis = match flavour { 2 => "secret", 3 => "", _ => rng.pick(&["public", "restricted", "Restricted", "\"restricted\"", "PUBLIC"]) };
    if flavour != 4 { m.insert("acl_visibility".to_string(), vis.to_string()); }
    if rng.chance(1, 2) { m.insert("acl_read_roles".to_string(), if flavour == 5 { "admin,analyst".to_string() } else { rng.pick(&["[\"admin\"]", "[\"Analyst\",\"admin\"]", "[]"]).to_string() }); }
    if rng.chance(1, 2) { m.insert("acl_read_groups".to_string(), if flavour == 6 { "[\"eng\"".to_string() } else { rng.pick(&["[\"eng\"]", "[\"ops\",\"ENG\"]"]).to_string() }); }
    if rng.chance(1, 2) { m.insert("acl_read_principals".to_string(), if flavour == 7 { "[\"\"]".to_string() } else { rng.pick(&["[\"user-1\"]", "[\"User-2\",\"user-1\"]"]).to_string() }); }
    m
}

/// Put a corpus through the World (so the reference model knows the frames); returns planted words.
pub fn build_corpus(w: &mut World<'_>, cfg: &HistCfg, cc: &CorpusCfg, planted: &BTreeMap<String, Vec<usize>>) -> bool {
    let _ = w.mem().begin_batch(Default::default());
    for d in 0..cc.docs {
        let words = if cc.long_docs && w.rng.chance(1, 7) { w.rng.usize(380, 620) } else { w.rng.usize(5, 60) };
        let mine: Vec<String> = planted.iter().filter(|(_, docs)| docs.contains(&d)).map(|(p, _)| p.clone()).collect();
        let text = doc_text(&mut w.rng, words, &mine);
        let scope = w.rng.pick(query::SCOPES);
        let mut op = json!({"op": "put", "text": text, "token": format!("doc{d}"), "uri": format!("{scope}{}{d}", w.rng.pick(&["Alpha", "beta", "GAMMA"])),
            "ts": 1_672_531_200i64 + w.rng.range(-50, 1200) * 86_400 + w.rng.range(0, 86_399), "instant": false,
            "track": if w.rng.chance(1, 2) { Some(w.rng.pick(query::TRACKS)) } else { None },
            "tags": (0..w.rng.below(3)).map(|_| w.rng.pick(query::TAGS)).collect::<Vec<_>>(),
            "labels": (0..w.rng.below(2)).map(|_| w.rng.pick(query::LABELS)).collect::<Vec<_>>(),
            "title": format!("Title {d}"), "triplets": false});
        if cc.acl { op["extra"] = json!(acl_metadata(&mut w.rng)); }
        if cc.embeddings { op["emb"] = json!(vec![d as f32, (d % 5) as f32, 1.0, 0.5]); }
        if !exec_op(w, cfg, &op) { return false; }
    }
    let _ = w.mem().end_batch();
    exec_op(w, cfg, &json!({"op": "commit"}))
}

/// What the reference evaluator sees: the stored search text (lower-cased), else the frame text.
pub fn searchable_text(mem: &mut Memvid, f: &Frame) -> String {
    match &f.search_text {
        Some(t) if !t.trim().is_empty() => t.to_lowercase(),
        _ => mem.frame_text_by_id(f.id).unwrap_or_default().to_lowercase(),
    }
}

fn has_token(text_lower: &str, word: &str) -> bool {
    text_lower.split(|c: char| !c.is_alphanumeric()).any(|t| t == word)
}

/// Follow next_cursor to exhaustion. Returns (hits as (frame, range), total_hits per page).
pub fn paginate(mem: &mut Memvid, base: &SearchRequest, page: usize) -> Result<(Vec<(u64, (usize, usize))>, Vec<usize>, Vec<SearchResponse>), MemvidError> {
    let mut out = Vec::new();
    let mut totals = Vec::new();
    let mut pages = Vec::new();
    let mut cursor: Option<String> = None;
    for _ in 0..400 {
        let mut r = base.clone();
        r.top_k = page;
        r.cursor = cursor.clone();
        let resp = mem.search(r)?;
        totals.push(resp.total_hits);
        out.extend(resp.hits.iter().map(|h| (h.frame_id, h.range)));
        cursor = resp.next_cursor.clone();
        pages.push(resp);
        if cursor.is_none() { break; }
    }
    Ok((out, totals, pages))
}

/// Per-hit validity (C10 / C28 second sentence). Returns the first problem found.
pub fn check_hits(mem: &mut Memvid, q: Option<&Q>, req: &SearchRequest, resp: &SearchResponse, active: &dyn Fn(u64) -> Option<bool>) -> Option<(String, String)> {
    if resp.hits.len() > req.top_k.max(1) {
        return Some(("C10:more-hits-than-top-k".into(), format!("{} hits, top_k {}", resp.hits.len(), req.top_k)));
    }
    for (i, h) in resp.hits.iter().enumerate() {
        if h.rank != i + 1 {
            return Some(("C10:ranks-not-1..n".into(), format!("hit {i} has rank {}", h.rank)));
        }
        match active(h.frame_id) {
            Some(true) => {}
            Some(false) => return Some(("C10:inactive-frame-returned".into(), format!("hit names frame {} which is not active", h.frame_id))),
            None => return Some(("C10:nonexistent-frame-returned".into(), format!("hit names frame {} which does not exist", h.frame_id))),
        }
        let Ok(f) = mem.frame_by_id(h.frame_id) else { return Some(("C10:nonexistent-frame-returned".into(), format!("frame {} unreadable", h.frame_id))) };
        let content = searchable_text(mem, &f);
        if let Some(q) = q {
            let judge_dates = f.content_dates.is_empty();
            let has_date = format!("{q:?}").contains("Date(");
            if (judge_dates || !has_date) && !query::reference_eval(q, &DocView::of(&f, &content)) {
                return Some(("C10:hit-does-not-satisfy-query".into(), format!("frame {} (uri {:?}, track {:?}, tags {:?}, labels {:?}, ts {}) does not satisfy {:?}; searchable text = {:?}", f.id, f.uri, f.track, f.tags, f.labels, f.timestamp, req.query, content.chars().take(200).collect::<String>())));
            }
        }
        let uri = f.uri.clone().unwrap_or_default();
        if let Some(u) = &req.uri {
            let ok = if u.contains('#') { uri.eq_ignore_ascii_case(u) } else { uri.to_lowercase().starts_with(&u.to_lowercase()) };
            if !ok { return Some(("C10:uri-filter-violated".into(), format!("hit uri {uri:?} vs filter {u:?}"))); }
        } else if let Some(s) = &req.scope {
            if !uri.to_lowercase().starts_with(&s.to_lowercase()) { return Some(("C10:scope-filter-violated".into(), format!("hit uri {uri:?} vs scope {s:?}"))); }
        }
        // snippet geometry
        if let (Some(cr), Some(ct)) = (h.chunk_range, h.chunk_text.as_ref()) {
            if h.range.0 < cr.0 || h.range.1 > cr.1 || h.range.0 > h.range.1 {
                return Some(("C10:range-outside-chunk-range".into(), format!("range {:?} chunk_range {:?}", h.range, cr)));
            }
            let (a, b) = (h.range.0 - cr.0, h.range.1 - cr.0);
            if ct.get(a..b) != Some(h.text.as_str()) {
                return Some(("C10:text-differs-from-chunk-text-slice".into(), format!("hit text {:?} vs chunk_text[{a}..{b}]", h.text.chars().take(60).collect::<String>())));
            }
        }
        // the hit text is the frame content at the byte range
        // content of a chunk = its parent's text; of a chunked document = its canonical text (the
        // concatenation of its chunks); of any other frame = its text
        let content_full = if f.role == FrameRole::DocumentChunk {
            f.parent_id.and_then(|p| mem.frame_canonical_payload(p).ok()).and_then(|b| String::from_utf8(b).ok())
        } else if f.chunk_manifest.is_some() {
            mem.frame_canonical_payload(f.id).ok().and_then(|b| String::from_utf8(b).ok())
        } else {
            mem.frame_text_by_id(f.id).ok()
        };
        if let Some(full) = content_full {
            if full.get(h.range.0..h.range.1) != Some(h.text.as_str()) {
                let role = format!("{:?}", f.role);
                return Some((format!("C10:text-differs-from-content-at-range:{role}"), format!("frame {} range {:?}: hit text {:?}, content there {:?}", f.id, h.range, h.text.chars().take(50).collect::<String>(), full.get(h.range.0..h.range.1).map(|s| s.chars().take(50).collect::<String>()))));
            }
        }
    }
    None
}

fn open_world<'a>(rep: &'a mut Report, dir: &std::path::Path, rng: Rng) -> (World<'a>, HistCfg) {
    let cfg = HistCfg { ops: 0, monitors: vec!["c01".into()], small_only: true, with_embeddings: false, maintenance: false, ts_mode: 0, check_every: 1000 };
    (World::new(dir, "mem.mv2", rng, rep), cfg)
}

// ------------------------------------------------------------------------------------ C09

pub fn c09(rep: &mut Report, scratch: &std::path::Path, rng: &mut Rng, corpora: u64, max_docs: usize) {
    for c in ["recall_queries", "recall_queries_after_reopen", "queries_with_sketch", "queries_without_sketch"] { rep.require(c); }
    for cn in 0..corpora {
        let dir = scratch.join(format!("r{cn}"));
        let _ = std::fs::create_dir_all(&dir);
        let (mut w, cfg) = open_world(rep, &dir, rng.fork());
        let docs = if w.rng.chance(1, 5) { w.rng.usize(1, 4) } else { w.rng.usize(5, max_docs) };
        // planted words: each occurs exactly once in each of k chosen documents, nowhere else
        let mut planted: BTreeMap<String, Vec<usize>> = BTreeMap::new();
        for p in 0..6 {
            let k = w.rng.usize(1, docs.min(18));
            let mut chosen: BTreeSet<usize> = BTreeSet::new();
            while chosen.len() < k { chosen.insert(w.rng.usize(0, docs - 1)); }
            // purely alphabetic, ending in 'q': one token for every analyzer, untouched by the stemmer
            let mut code = String::new();
            let mut n = cn * 10 + p + 1;
            while n > 0 { code.push(char::from(b'a' + (n % 26) as u8)); n /= 26; }
            planted.insert(format!("zqx{code}vq"), chosen.into_iter().collect());
        }
        let cc = CorpusCfg { docs, acl: false, embeddings: false, long_docs: true };
        if exec_op(&mut w, &cfg, &json!({"op": "create"})) && build_corpus(&mut w, &cfg, &cc, &planted) {
            for stage in ["before-close", "after-reopen"] {
                if stage == "after-reopen" && !exec_op(&mut w, &cfg, &json!({"op": "reopen"})) { break; }
                // expected frames from the stored search text of every active frame
                let n = w.mem().frame_count() as u64;
                let mut texts: Vec<(u64, String)> = Vec::new();
                for id in 0..n {
                    if let Ok(f) = w.mem().frame_by_id(id) {
                        if f.status == FrameStatus::Active { let t = searchable_text(w.mem(), &f); texts.push((id, t)); }
                    }
                }
                for word in planted.keys() {
                    let expect: BTreeSet<u64> = texts.iter().filter(|(_, t)| has_token(t, word)).map(|(id, _)| *id).collect();
                    if expect.is_empty() { continue; }
                    for no_sketch in [false, true] {
                        w.rep.eval();
                        w.rep.count("recall_queries");
                        w.rep.count(if no_sketch { "queries_without_sketch" } else { "queries_with_sketch" });
                        if stage == "after-reopen" { w.rep.count("recall_queries_after_reopen"); }
                        let top_k = expect.len() + w.rng.usize(0, 5);
                        let mut r = request(word, top_k);
                        r.no_sketch = no_sketch;
                        w.log.push(json!({"op": "search", "query": word, "top_k": top_k, "no_sketch": no_sketch, "stage": stage, "expected_frames": expect}));
                        match w.mem().search(r) {
                            Ok(resp) => {
                                let got: BTreeSet<u64> = resp.hits.iter().map(|h| h.frame_id).collect();
                                let missing: Vec<&u64> = expect.difference(&got).collect();
                                if !missing.is_empty() {
                                    // diagnose: (1) does the pre-filter drop them? (2) are they only pushed to a
                                    // later page because other frames produced several snippets?
                                    let mut r2 = request(word, top_k);
                                    r2.no_sketch = true;
                                    let plain = w.mem().search(r2.clone()).map(|x| x.hits.iter().map(|h| h.frame_id).collect::<BTreeSet<u64>>()).unwrap_or_default();
                                    let stream: BTreeSet<u64> = paginate(w.mem(), &r2, top_k.max(1)).map(|x| x.0.iter().map(|h| h.0).collect()).unwrap_or_default();
                                    let why = if !no_sketch && expect.is_subset(&plain) {
                                        "sketch-prefilter"
                                    } else if expect.is_subset(&stream) {
                                        "pushed-to-later-page-by-extra-snippets"
                                    } else {
                                        "absent-from-every-page"
                                    };
                                    let roles: Vec<String> = missing.iter().map(|id| w.model.frames.get(**id as usize).map(|m| format!("{}:{:?}:parent={:?}:children={}", m.id, m.role, m.parent, m.chunk_children.len())).unwrap_or_default()).collect();
                                    // which frames took more than one slot?
                                    let mut per_frame: BTreeMap<u64, usize> = BTreeMap::new();
                                    for h in &resp.hits { *per_frame.entry(h.frame_id).or_insert(0) += 1; }
                                    let multi: Vec<String> = per_frame.iter().filter(|(_, n)| **n > 1).map(|(id, n)| format!("{id}x{n}:{}", w.model.frames.get(*id as usize).map(|m| if !m.chunk_children.is_empty() { "chunked-parent" } else if m.is_chunk { "chunk" } else { "plain" }).unwrap_or("?"))).collect();
                                    let first_multi: Vec<String> = per_frame.iter().filter(|(_, n)| **n > 1).take(1).flat_map(|(id, _)| resp.hits.iter().filter(|h| h.frame_id == *id).map(|h| format!("{:?}:{:?}", h.range, h.text.chars().take(70).collect::<String>())).collect::<Vec<_>>()).collect();
                                    let occ = per_frame.iter().filter(|(_, n)| **n > 1).take(1).map(|(id, _)| texts.iter().find(|(i, _)| i == id).map(|(_, t)| t.matches(word.as_str()).count()).unwrap_or(0)).next();
                                    let roles = (roles, multi.clone(), first_multi, occ);
                                    if why == "pushed-to-later-page-by-extra-snippets" && !multi.is_empty() {
                                        // A response holds snippets, not frames: a frame whose searchable text
                                        // holds the word twice (auto-tagging repeats rare words in a "tags:" line)
                                        // takes two slots. Every matching frame is in the stream, which is what
                                        // is required when frames have several occurrences (stated interpretation).
                                        w.rep.count("recall_confirmed_by_pagination");
                                        continue;
                                    }
                                    // record and keep going: the stages after this one are separate observations
                                    let d = w.detail();
                                    w.rep.violation(&format!("C09:missing:{why}"), format!("{stage}, no_sketch={no_sketch}: query {word:?} top_k {top_k}: {} of {} matching frames returned ({} hits, total_hits {}); missing {roles:?}; engine {:?}", expect.len() - missing.len(), expect.len(), resp.hits.len(), resp.total_hits, resp.engine), d);
                                }
                            }
                            Err(e) => { w.violation("C09:search-error", format!("search({word:?}) failed: {e}")); break; }
                        }
                    }
                    if w.failed { break; }
                }
                if w.failed { break; }
            }
        }
        let fp = h64(format!("{docs}:{planted:?}").as_bytes());
        if w.rep.samples.len() < 2 { w.rep.sample(json!({"documents": docs, "planted": planted})); }
        w.mem = None;
        rep.nontrivial(fp);
        rep.count("corpora");
        let _ = std::fs::remove_dir_all(&dir);
    }
}

// ------------------------------------------------------------------------------------ C10 / C11 / C16

fn corpus_uris(w: &World<'_>) -> Vec<String> {
    w.model.frames.iter().filter(|m| !m.is_chunk).map(|m| m.uri.clone()).collect()
}

pub fn rand_request(w: &mut World<'_>, uris: &[String]) -> (Q, SearchRequest) {
    let q = query::rand_query(&mut w.rng, 2, uris, true);
    let text = if w.rng.chance(1, 3) { q.print_paren() } else { q.print() };
    let mut r = request(&text, w.rng.usize(0, 12));
    r.snippet_chars = w.rng.pick(&[0usize, 20, 80, 200, 1000]);
    match w.rng.below(6) {
        0 if !uris.is_empty() => r.uri = Some(w.rng.pick_ref(uris).clone()),
        1 if !uris.is_empty() => r.uri = Some(w.rng.pick_ref(uris).to_uppercase()),
        2 => r.scope = Some(w.rng.pick(query::SCOPES).to_string()),
        3 => r.scope = Some("mv2://".to_string()),
        _ => {}
    }
    r.no_sketch = w.rng.chance(1, 2);
    (q, r)
}

pub fn c10(rep: &mut Report, scratch: &std::path::Path, rng: &mut Rng, corpora: u64, queries: u64, max_docs: usize) {
    for c in ["queries", "queries_with_hits", "hits_checked", "queries_before_commit", "queries_after_reopen"] { rep.require(c); }
    for cn in 0..corpora {
        let dir = scratch.join(format!("q{cn}"));
        let _ = std::fs::create_dir_all(&dir);
        let (mut w, cfg) = open_world(rep, &dir, rng.fork());
        let docs = w.rng.usize(3, max_docs);
        let cc = CorpusCfg { docs, acl: false, embeddings: false, long_docs: true };
        if exec_op(&mut w, &cfg, &json!({"op": "create"})) && build_corpus(&mut w, &cfg, &cc, &BTreeMap::new()) {
            // some deletes/updates so that inactive frames exist
            for _ in 0..w.rng.usize(0, 4) {
                let active: Vec<u64> = w.model.frames.iter().filter(|m| m.status == FrameStatus::Active && !m.is_chunk).map(|m| m.id).collect();
                if active.len() < 3 { break; }
                let t = w.rng.pick(&active);
                let op = if w.rng.chance(1, 2) { json!({"op": "delete", "target": t}) } else { json!({"op": "update", "target": t, "gen": w.rng.next(), "token": "upd"}) };
                if !exec_op(&mut w, &cfg, &op) { break; }
            }
            let _ = exec_op(&mut w, &cfg, &json!({"op": "commit"}));
            let uris = corpus_uris(&w);
            for stage in ["committed", "with-uncommitted-puts", "after-reopen"] {
                if w.failed { break; }
                if stage == "with-uncommitted-puts" {
                    // instant-indexed puts that are not committed yet
                    for d in 0..3 {
                        let text = doc_text(&mut w.rng, 12, &[]);
                        let op = json!({"op": "put", "text": text, "token": format!("late{d}"), "uri": format!("mv2://docs/Late{d}"), "ts": 1_700_000_000 + d, "instant": true, "triplets": false});
                        if !exec_op(&mut w, &cfg, &op) { break; }
                    }
                }
                if stage == "after-reopen" && !exec_op(&mut w, &cfg, &json!({"op": "reopen"})) { break; }
                for _ in 0..queries {
                    w.rep.eval();
                    let (q, r) = rand_request(&mut w, &uris);
                    w.rep.count("queries");
                    match stage { "with-uncommitted-puts" => w.rep.count("queries_before_commit"), "after-reopen" => w.rep.count("queries_after_reopen"), _ => {} }
                    w.log.push(json!({"op": "search", "query": r.query, "top_k": r.top_k, "uri": r.uri, "scope": r.scope, "snippet_chars": r.snippet_chars, "no_sketch": r.no_sketch, "stage": stage}));
                    let resp = match w.mem().search(r.clone()) {
                        Ok(x) => x,
                        // an error is not a hit: C10 judges hits only (errors are counted as an observation)
                        Err(e) => { w.rep.count(&format!("search_errors[{}]", super::hist::err_kind(&e))); continue; }
                    };
                    if !resp.hits.is_empty() { w.rep.count("queries_with_hits"); }
                    w.rep.add("hits_checked", resp.hits.len() as u64);
                    let statuses: Vec<bool> = w.model.frames.iter().map(|m| m.status == FrameStatus::Active).collect();
                    let active = move |id: u64| statuses.get(id as usize).copied();
                    let mem = w.mem.as_mut().unwrap();
                    if let Some((key, what)) = check_hits(mem, Some(&q), &r, &resp, &active) {
                        let key = if stage == "with-uncommitted-puts" { format!("{key}:with-uncommitted-puts") } else { key };
                        w.violation(&key, format!("{stage}: {what}"));
                        break;
                    }
                }
            }
        }
        let fp = h64(serde_json::to_string(&w.log.iter().rev().take(5).collect::<Vec<_>>()).unwrap_or_default().as_bytes());
        if w.rep.samples.len() < 3 { let s: Vec<Value> = w.log.iter().filter(|o| o["op"] == "search").take(2).cloned().collect(); w.rep.sample(json!({"documents": docs, "queries": s})); }
        w.mem = None;
        rep.nontrivial(fp);
        rep.count("corpora");
        let _ = std::fs::remove_dir_all(&dir);
    }
}

pub fn c11(rep: &mut Report, scratch: &std::path::Path, rng: &mut Rng, corpora: u64, queries: u64, max_docs: usize) {
    for c in ["as_of_frame_queries", "as_of_ts_queries", "filtered_hits_checked", "subset_checks"] { rep.require(c); }
    for cn in 0..corpora {
        let dir = scratch.join(format!("t{cn}"));
        let _ = std::fs::create_dir_all(&dir);
        let (mut w, cfg) = open_world(rep, &dir, rng.fork());
        let docs = w.rng.usize(4, max_docs);
        let cc = CorpusCfg { docs, acl: false, embeddings: false, long_docs: false };
        if exec_op(&mut w, &cfg, &json!({"op": "create"})) && build_corpus(&mut w, &cfg, &cc, &BTreeMap::new()) {
            let uris = corpus_uris(&w);
            let n = w.model.frames.len() as u64;
            let stamps: Vec<i64> = w.model.frames.iter().map(|m| m.timestamp).collect();
            for _ in 0..queries {
                w.rep.eval();
                // simple queries have many matches, which is what a time filter has to cut
                let q = if w.rng.chance(2, 3) { Q::Word(w.rng.pick(query::VOCAB).to_string()) } else { query::rand_query(&mut w.rng, 2, &uris, true) };
                let mut base = request(&q.print(), 1000);
                base.no_sketch = w.rng.chance(1, 2);
                let unfiltered = match paginate(w.mem(), &base, 50) { Ok(x) => x.0, Err(_) => continue };
                let all: BTreeSet<(u64, (usize, usize))> = unfiltered.iter().copied().collect();
                let mut f = base.clone();
                let by_frame = w.rng.chance(1, 2);
                if by_frame { f.as_of_frame = Some(w.rng.below(n + 2)); w.rep.count("as_of_frame_queries"); } else { f.as_of_ts = Some(w.rng.pick(&stamps) + w.rng.range(-1, 1)); w.rep.count("as_of_ts_queries"); }
                w.log.push(json!({"op": "search", "query": base.query, "as_of_frame": f.as_of_frame, "as_of_ts": f.as_of_ts, "no_sketch": base.no_sketch, "unfiltered_hits": unfiltered.len()}));
                // an error returns no frame at all, so it cannot return a future one: counted, not judged
                let filtered = match paginate(w.mem(), &f, 50) { Ok(x) => x.0, Err(e) => { w.rep.count(&format!("search_errors[{}]", super::hist::err_kind(&e))); continue; } };
                w.rep.add("filtered_hits_checked", filtered.len() as u64);
                let sk = if base.no_sketch { "no-sketch" } else { "sketch" };
                for (id, _) in &filtered {
                    let m = &w.model.frames[*id as usize];
                    if let Some(nf) = f.as_of_frame { if *id > nf { w.violation(&format!("C11:future-frame:as_of_frame:{sk}"), format!("as_of_frame={nf} returned frame {id}")); break; } }
                    if let Some(ts) = f.as_of_ts { if m.timestamp > ts { w.violation(&format!("C11:future-frame:as_of_ts:{sk}"), format!("as_of_ts={ts} returned frame {id} with timestamp {}", m.timestamp)); break; } }
                }
                if w.failed { break; }
                w.rep.count("subset_checks");
                if let Some(extra) = filtered.iter().find(|h| !all.contains(h)) {
                    // only a new *frame* is a semantic addition; snippet ranges may legitimately be re-cut
                    if !all.iter().any(|h| h.0 == extra.0) {
                        w.violation(&format!("C11:filter-adds-hit:{sk}"), format!("filtered search returned frame {} which the unfiltered search (all {} hits) did not", extra.0, all.len()));
                        break;
                    }
                }
            }
        }
        let fp = h64(serde_json::to_string(&w.log.iter().rev().take(5).collect::<Vec<_>>()).unwrap_or_default().as_bytes());
        if w.rep.samples.len() < 2 { let s: Vec<Value> = w.log.iter().filter(|o| o["op"] == "search").take(2).cloned().collect(); w.rep.sample(json!({"documents": docs, "queries": s})); }
        w.mem = None;
        rep.nontrivial(fp);
        rep.count("corpora");
        let _ = std::fs::remove_dir_all(&dir);
    }
}

pub fn c16(rep: &mut Report, scratch: &std::path::Path, rng: &mut Rng, corpora: u64, queries: u64, max_docs: usize) {
    for c in ["paginated_queries", "multi_page_queries", "queries_over_20_matching_frames"] { rep.require(c); }
    for cn in 0..corpora {
        let dir = scratch.join(format!("p{cn}"));
        let _ = std::fs::create_dir_all(&dir);
        let (mut w, cfg) = open_world(rep, &dir, rng.fork());
        let docs = w.rng.usize(10, max_docs);
        let cc = CorpusCfg { docs, acl: false, embeddings: false, long_docs: false };
        if exec_op(&mut w, &cfg, &json!({"op": "create"})) && build_corpus(&mut w, &cfg, &cc, &BTreeMap::new()) {
            let uris = corpus_uris(&w);
            for _ in 0..queries {
                w.rep.eval();
                let q = if w.rng.chance(3, 4) { Q::Word(w.rng.pick(query::VOCAB).to_string()) } else { query::rand_query(&mut w.rng, 1, &uris, false) };
                let mut base = request(&q.print(), 10_000);
                base.no_sketch = w.rng.chance(1, 2);
                let page = w.rng.usize(1, 10);
                let single = match w.mem().search(base.clone()) { Ok(x) => x, Err(_) => continue };
                let single_seq: Vec<(u64, (usize, usize))> = single.hits.iter().map(|h| (h.frame_id, h.range)).collect();
                if single_seq.is_empty() { continue; }
                w.rep.count("paginated_queries");
                let frames: BTreeSet<u64> = single_seq.iter().map(|h| h.0).collect();
                if frames.len() > 20 { w.rep.count("queries_over_20_matching_frames"); }
                w.log.push(json!({"op": "paginate", "query": base.query, "page_size": page, "no_sketch": base.no_sketch, "single_request_hits": single_seq.len(), "matching_frames": frames.len()}));
                match paginate(w.mem(), &base, page) {
                    Ok((seq, totals, pages)) => {
                        if pages.len() > 1 { w.rep.count("multi_page_queries"); }
                        // Two known page-size dependences (see known_findings.json): the Tantivy candidate limit max(20, 4*(top_k+offset))
                        // and the per-document snippet cap (= top_k). A query for which neither can bind must paginate exactly; the class
                        // is part of the finding key so that a discrepancy there is never mistaken for the known ones.
                        let max_per_frame = frames.iter().map(|f| single_seq.iter().filter(|h| h.0 == *f).count()).max().unwrap_or(0);
                        // the slicer stops as soon as it has top_k snippets of a document, so a document with exactly top_k snippets can
                        // already differ (a later occurrence no longer extends its last snippet): the cap is out of play only below that
                        // the limit applies to Tantivy's candidate documents, of which the post-evaluation may cull some (a phrase or an
                        // AND query retrieves every document with one of the words): bound them from above by the active frames whose
                        // searchable text holds any word of the query; a query without words is counted as unbounded
                        let mut qwords: Vec<String> = Vec::new();
                        q.words(&mut qwords);
                        let qtokens: Vec<String> = qwords.iter().flat_map(|w| w.split_whitespace().map(|t| t.to_lowercase()).collect::<Vec<_>>()).collect();
                        let candidates_upper = if qtokens.is_empty() { usize::MAX } else {
                            let n = w.mem().frame_count() as u64;
                            let mut c = 0usize;
                            for id in 0..n {
                                if let Ok(f) = w.mem().frame_by_id(id) {
                                    if f.status != FrameStatus::Active { continue; }
                                    let t = searchable_text(w.mem.as_mut().unwrap(), &f);
                                    if qtokens.iter().any(|tok| t.contains(tok.as_str())) { c += 1; }
                                }
                            }
                            c
                        };
                        let over = match (frames.len() > 20 || candidates_upper > 20, max_per_frame >= page) {
                            (true, _) => "more-frames-than-candidate-limit",
                            (false, true) => "within-candidate-limit:snippet-cap-binding",
                            (false, false) => "within-candidate-limit:snippet-cap-not-binding",
                        };
                        w.rep.count(&format!("paginated[{over}]"));
                        // recorded without stopping the corpus: each query is its own observation
                        let d = w.detail();
                        if totals.iter().any(|t| *t != totals[0]) || totals[0] != single.total_hits {
                            w.rep.violation(&format!("C16:total-hits-varies:{over}"), format!("{over}: total_hits per page {:?}, single request {} (page size {page})", totals.iter().take(8).collect::<Vec<_>>(), single.total_hits), d.clone());
                        }
                        let mut seen = BTreeSet::new();
                        if let Some(dup) = seq.iter().find(|h| !seen.insert(**h)) {
                            w.rep.violation(&format!("C16:hit-repeated:{over}"), format!("{over}: hit {dup:?} appears on two pages (page size {page})"), d.clone());
                        } else if seq != single_seq {
                            let same_set = seq.iter().collect::<BTreeSet<_>>() == single_seq.iter().collect::<BTreeSet<_>>();
                            let why = if same_set { "same-hits-different-order" } else if seq.len() < single_seq.len() { "hits-skipped" } else { "different-hits" };
                            w.rep.violation(&format!("C16:sequence-differs:{why}:{over}"), format!("{over}: concatenated pages have {} hits, single request {} (page size {page})", seq.len(), single_seq.len()), d);
                        } else {
                            w.rep.count("queries_paginating_identically");
                        }
                    }
                    Err(e) => { w.rep.count(&format!("pagination_errors[{}]", super::hist::err_kind(&e))); }
                }
            }
        }
        let fp = h64(serde_json::to_string(&w.log.iter().rev().take(5).collect::<Vec<_>>()).unwrap_or_default().as_bytes());
        if w.rep.samples.len() < 2 { let s: Vec<Value> = w.log.iter().filter(|o| o["op"] == "paginate").take(2).cloned().collect(); w.rep.sample(json!({"documents": docs, "queries": s})); }
        w.mem = None;
        rep.nontrivial(fp);
        rep.count("corpora");
        let _ = std::fs::remove_dir_all(&dir);
    }
}

// ------------------------------------------------------------------------------------ C28

type Battery = (Vec<(String, BTreeSet<(u64, (usize, usize))>)>, Vec<(Vec<f32>, Vec<(u64, u32)>)>, Vec<(String, Vec<(u64, i64)>)>);

fn battery(mem: &mut Memvid, lex: &[SearchRequest], vecq: &[Vec<f32>], tl: &[(Option<i64>, Option<i64>, bool)]) -> Result<Battery, String> {
    let mut a = Vec::new();
    for r in lex {
        // an error is part of the observation: the same query must fail the same way everywhere
        let set: BTreeSet<(u64, (usize, usize))> = match paginate(mem, r, 50) {
            Ok(x) => x.0.into_iter().collect(),
            Err(e) => BTreeSet::from([(u64::MAX - h64(super::hist::err_kind(&e).as_bytes()) % 1000, (0, 0))]),
        };
        a.push((r.query.clone(), set));
    }
    let mut b = Vec::new();
    for q in vecq {
        let hits = mem.search_vec(q, 7).map_err(|e| format!("search_vec: {e}"))?;
        b.push((q.clone(), hits.iter().map(|h| (h.frame_id, h.distance.to_bits())).collect()));
    }
    let mut c = Vec::new();
    for (s, u, rev) in tl {
        let es = mem.timeline(TimelineQuery { limit: None, since: *s, until: *u, reverse: *rev }).map_err(|e| format!("timeline: {e}"))?;
        c.push((format!("{s:?}/{u:?}/{rev}"), es.iter().map(|e| (e.frame_id, e.timestamp)).collect()));
    }
    Ok((a, b, c))
}

fn diff_battery(a: &Battery, b: &Battery) -> Option<(String, String)> {
    for (i, (x, y)) in a.0.iter().zip(b.0.iter()).enumerate() {
        if x.1 != y.1 {
            // the second half of the battery goes through the sketch pre-filter
            let path = if i >= a.0.len() / 2 { "with-sketch-prefilter" } else { "no-sketch" };
            let fx: BTreeSet<u64> = x.1.iter().map(|h| h.0).collect();
            let fy: BTreeSet<u64> = y.1.iter().map(|h| h.0).collect();
            let why = if fx != fy { "different-frames" } else { "same-frames-different-ranges" };
            return Some((format!("lexical:{why}:{path}"), format!("query {:?}: {} vs {} hits; frames {:?} vs {:?}", x.0, x.1.len(), y.1.len(), fx.iter().take(8).collect::<Vec<_>>(), fy.iter().take(8).collect::<Vec<_>>())));
        }
    }
    for (x, y) in a.1.iter().zip(b.1.iter()) {
        if x.1 != y.1 { return Some(("vector".into(), format!("query {:?}: {:?} vs {:?}", x.0, x.1, y.1))); }
    }
    for (x, y) in a.2.iter().zip(b.2.iter()) {
        if x.1 != y.1 { return Some(("timeline".into(), format!("timeline {}: {} vs {} entries", x.0, x.1.len(), y.1.len()))); }
    }
    None
}

pub fn c28(rep: &mut Report, scratch: &std::path::Path, rng: &mut Rng, corpora: u64, max_docs: usize) {
    for c in ["batteries_compared", "lexical_queries_per_battery", "doctor_copies_compared", "pre_commit_hits_checked"] { rep.require(c); }
    for cn in 0..corpora {
        let dir = scratch.join(format!("b{cn}"));
        let _ = std::fs::create_dir_all(&dir);
        let (mut w, cfg) = open_world(rep, &dir, rng.fork());
        let docs = w.rng.usize(4, max_docs);
        let cc = CorpusCfg { docs, acl: false, embeddings: true, long_docs: true };
        if exec_op(&mut w, &cfg, &json!({"op": "create"})) && build_corpus(&mut w, &cfg, &cc, &BTreeMap::new()) {
            for _ in 0..w.rng.usize(0, 3) {
                let active: Vec<u64> = w.model.frames.iter().filter(|m| m.status == FrameStatus::Active && !m.is_chunk).map(|m| m.id).collect();
                if active.len() < 3 { break; }
                let t = w.rng.pick(&active);
                if !exec_op(&mut w, &cfg, &json!({"op": "delete", "target": t})) { break; }
            }
            if w.failed || !exec_op(&mut w, &cfg, &json!({"op": "commit"})) { continue; }
            let uris = corpus_uris(&w);
            // first half without, second half with the sketch pre-filter (the sketch track is persisted and reloaded too)
            let lex: Vec<SearchRequest> = (0..24).map(|i| { let (_, mut r) = rand_request(&mut w, &uris); r.top_k = 50; r.no_sketch = i < 12; r }).collect();
            w.rep.add("lexical_queries_per_battery", lex.len() as u64);
            let vecq: Vec<Vec<f32>> = (0..6).map(|_| vec![w.rng.below(docs as u64) as f32 + 0.25, w.rng.below(5) as f32, 1.0, 0.5]).collect();
            let tl = vec![(None, None, false), (None, None, true), (Some(1_680_000_000), None, false), (None, Some(1_700_000_000), true)];
            let live = match battery(w.mem(), &lex, &vecq, &tl) { Ok(b) => b, Err(e) => { w.violation("C28:battery-error:live", e); continue; } };
            // searches between put and commit: only the validity of hits is judged
            for d in 0..2 {
                let text = doc_text(&mut w.rng, 10, &[]);
                let _ = exec_op(&mut w, &cfg, &json!({"op": "put", "text": text, "token": format!("late{d}"), "uri": format!("mv2://docs/Late{d}"), "ts": 1_700_000_500 + d, "instant": true, "triplets": false}));
            }
            for r in lex.iter().take(8) {
                if let Ok(resp) = w.mem().search(r.clone()) {
                    w.rep.add("pre_commit_hits_checked", resp.hits.len() as u64 + 1);
                    let n_frames = w.mem().frame_count() as u64;
                    for h in &resp.hits {
                        // the frame named by the hit must itself contain the hit text (it "contains the query")
                        let ok = h.frame_id < n_frames && w.mem().frame_by_id(h.frame_id).ok().is_some_and(|f| { let t = searchable_text(w.mem.as_mut().unwrap(), &f); h.text.split_whitespace().take(3).all(|tok| t.contains(&tok.to_lowercase().trim_matches(|c: char| !c.is_alphanumeric()).to_string())) });
                        if !ok {
                            w.violation("C28:pre-commit-hit-names-wrong-frame", format!("between put and commit, query {:?} returned frame {} whose searchable text does not contain the hit text {:?}", r.query, h.frame_id, h.text.chars().take(60).collect::<String>()));
                            break;
                        }
                    }
                }
                if w.failed { break; }
            }
            if w.failed { continue; }
            // drop the uncommitted puts' effect on comparisons: commit them, then re-baseline
            if !exec_op(&mut w, &cfg, &json!({"op": "commit"})) { continue; }
            let live = match battery(w.mem(), &lex, &vecq, &tl) { Ok(b) => b, Err(_) => live };
            let path = w.path.clone();
            w.mem = None;
            for how in ["reopened-read-write", "read-only", "doctored-copy-time", "doctored-copy-lex", "doctored-copy-vec", "doctored-copy-all"] {
                let target = if how.starts_with("doctored") {
                    let copy = dir.join(format!("{how}.mv2"));
                    if std::fs::copy(&path, &copy).is_err() { continue; }
                    let o = DoctorOptions { rebuild_time_index: how.ends_with("time") || how.ends_with("all"), rebuild_lex_index: how.ends_with("lex") || how.ends_with("all"), rebuild_vec_index: how.ends_with("vec") || how.ends_with("all"), vacuum: false, dry_run: false, quiet: true };
                    if let Err(e) = Memvid::doctor(&copy, o) { w.violation(&format!("C28:doctor-failed:{how}"), e.to_string()); break; }
                    w.rep.count("doctor_copies_compared");
                    copy
                } else { path.clone() };
                let opened = if how == "read-only" { Memvid::open_read_only(&target) } else { Memvid::open(&target) };
                let mut m = match opened { Ok(m) => m, Err(e) => { w.violation(&format!("C28:open-failed:{how}"), e.to_string()); break; } };
                match battery(&mut m, &lex, &vecq, &tl) {
                    Ok(b) => {
                        w.rep.eval();
                        w.rep.count("batteries_compared");
                        if let Some((kind, what)) = diff_battery(&live, &b) {
                            w.violation(&format!("C28:results-differ:{kind}:{how}"), format!("live handle vs {how}: {what}"));
                            break;
                        }
                    }
                    Err(e) => { w.violation(&format!("C28:battery-error:{how}"), e); break; }
                }
                // a put on the reopened / doctored file that is searched before its commit: whatever frame a hit names must itself
                // contain the (unique) word - the instant index works with provisional ids that a rebuilt index must not confuse
                if how.starts_with("doctored") { // private copies: the put does not disturb the other comparisons
                    let mut o = memvid_core::PutOptions::default();
                    o.instant_index = true;
                    o.extract_triplets = false;
                    o.timestamp = Some(1_700_009_000);
                    o.uri = Some("mv2://docs/AfterReopen".to_string());
                    if m.put_bytes_with_options(b"qzlatevq arrives after the file was reopened", o).is_ok() {
                        let mut r = request("qzlatevq", 10);
                        r.no_sketch = true;
                        let searched = m.search(r);
                        w.rep.count(if searched.is_ok() { "pre_commit_searches_on_doctored_copies[answered]" } else { "pre_commit_searches_on_doctored_copies[refused]" });
                        if let Ok(resp) = searched {
                            for h in &resp.hits {
                                let text = m.frame_by_id(h.frame_id).ok().map(|f| searchable_text(&mut m, &f)).unwrap_or_default();
                                if !text.contains("qzlatevq") {
                                    w.violation(&format!("C28:pre-commit-hit-names-wrong-frame:{how}"), format!("on the {how} file, a put searched before its commit: query 'qzlatevq' returned frame {} whose text does not contain the word", h.frame_id));
                                    break;
                                }
                            }
                        }
                    }
                    if w.failed { break; }
                }
                drop(m);
                if how.starts_with("doctored") { let _ = std::fs::remove_file(&target); }
            }
        }
        let fp = h64(format!("{docs}:{}", w.log.len()).as_bytes());
        if w.rep.samples.len() < 2 { w.rep.sample(json!({"documents": docs, "frames": w.model.frames.len()})); }
        w.mem = None;
        rep.nontrivial(fp ^ cn);
        rep.count("corpora");
        let _ = std::fs::remove_dir_all(&dir);
    }
}

// ------------------------------------------------------------------------------------ C12

fn norm_scalar(v: Option<&String>) -> Option<String> {
    let t = v?.trim();
    if t.is_empty() { return None; }
    let un = serde_json::from_str::<String>(t).map(|s| s.trim().to_string()).unwrap_or_else(|_| t.to_string());
    if un.is_empty() { None } else { Some(un.to_lowercase()) }
}

fn norm_list(meta: &BTreeMap<String, String>, key: &str) -> Result<BTreeSet<String>, ()> {
    let Some(raw) = meta.get(key) else { return Ok(BTreeSet::new()) };
    let vals: Vec<String> = serde_json::from_str(raw).map_err(|_| ())?;
    let mut out = BTreeSet::new();
    for v in vals { out.insert(norm_scalar(Some(&v)).ok_or(())?); }
    Ok(out)
}

/// Reference policy (from the ACL documentation and the property text): deny unless the metadata
/// is complete and valid, the tenant matches, and the frame is public or lists the caller.
pub fn reference_allows(meta: &BTreeMap<String, String>, ctx: &AclContext) -> bool {
    let Some(tenant) = norm_scalar(ctx.tenant_id.as_ref()) else { return true };
    let (Some(ft), Some(vis)) = (norm_scalar(meta.get("acl_tenant_id")), norm_scalar(meta.get("acl_visibility"))) else { return false };
    let (Ok(roles), Ok(groups), Ok(principals)) = (norm_list(meta, "acl_read_roles"), norm_list(meta, "acl_read_groups"), norm_list(meta, "acl_read_principals")) else { return false };
    if vis != "public" && vis != "restricted" { return false; }
    if ft != tenant { return false; }
    if vis == "public" { return true; }
    let subj = norm_scalar(ctx.subject_id.as_ref());
    subj.is_some_and(|s| principals.contains(&s))
        || ctx.roles.iter().filter_map(|r| norm_scalar(Some(r))).any(|r| roles.contains(&r))
        || ctx.group_ids.iter().filter_map(|g| norm_scalar(Some(g))).any(|g| groups.contains(&g))
}

fn rand_ctx(rng: &mut Rng) -> AclContext {
    AclContext {
        tenant_id: match rng.below(8) { 0 => None, 1 => Some("  ".into()), 2 => Some("TENANT-A".into()), 3 => Some("tenant-b".into()), _ => Some("tenant-a".into()) },
        subject_id: match rng.below(3) { 0 => None, 1 => Some("user-1".into()), _ => Some("USER-2".into()) },
        roles: (0..rng.below(3)).map(|_| rng.pick(&["admin", "Analyst", "guest"]).to_string()).collect(),
        group_ids: (0..rng.below(3)).map(|_| rng.pick(&["eng", "OPS", "sales"]).to_string()).collect(),
    }
}

pub fn c12(rep: &mut Report, scratch: &std::path::Path, rng: &mut Rng, corpora: u64, requests: u64, max_docs: usize) {
    for c in ["enforce_requests", "audit_requests", "enforce_without_tenant_rejected", "denied_frames_in_corpus", "hits_checked", "vector_requests", "ask_requests"] { rep.require(c); }
    for cn in 0..corpora {
        let dir = scratch.join(format!("a{cn}"));
        let _ = std::fs::create_dir_all(&dir);
        let (mut w, cfg) = open_world(rep, &dir, rng.fork());
        let docs = w.rng.usize(6, max_docs);
        let cc = CorpusCfg { docs, acl: true, embeddings: true, long_docs: false };
        // one unique alphabetic word per document, so that a denied document is recognisable inside context / answer strings
        let uniq = |d: usize| -> String { let mut s = String::from("qzu"); let mut n = d; loop { s.push(char::from(b'a' + (n % 26) as u8)); n /= 26; if n == 0 { break; } } s.push_str("vq"); s };
        let planted: BTreeMap<String, Vec<usize>> = (0..docs).map(|d| (uniq(d), vec![d])).collect();
        if exec_op(&mut w, &cfg, &json!({"op": "create"})) && build_corpus(&mut w, &cfg, &cc, &planted) {
            let metas: Vec<BTreeMap<String, String>> = w.model.frames.iter().map(|m| m.extra_given.clone()).collect();
            for _ in 0..requests {
                w.rep.eval();
                let ctx = rand_ctx(&mut w.rng);
                let tenant_ok = norm_scalar(ctx.tenant_id.as_ref()).is_some();
                let word = w.rng.pick(query::VOCAB).to_string();
                let denied: BTreeSet<u64> = metas.iter().enumerate().filter(|(_, m)| !reference_allows(m, &ctx)).map(|(i, _)| i as u64).collect();
                w.rep.add("denied_frames_in_corpus", denied.len() as u64);
                let entry = w.rng.below(4);
                let mode_enforce = w.rng.chance(3, 4);
                let mode = if mode_enforce { AclEnforcementMode::Enforce } else { AclEnforcementMode::Audit };
                let qv = vec![w.rng.below(docs as u64) as f32, 1.0, 1.0, 0.5];
                w.log.push(json!({"op": "acl-request", "entry": entry, "enforce": mode_enforce, "ctx": {"tenant": ctx.tenant_id, "subject": ctx.subject_id, "roles": ctx.roles, "groups": ctx.group_ids}, "word": word}));
                // run the entry point; collect every frame id it exposes
                let exposed: Result<(Vec<u64>, String, usize), MemvidError> = match entry {
                    0 => { let mut r = request(&word, 50); r.acl_context = Some(ctx.clone()); r.acl_enforcement_mode = mode; r.no_sketch = true; w.mem().search(r).map(|x| (x.hits.iter().map(|h| h.frame_id).collect(), x.context.clone(), x.total_hits)) }
                    1 => { w.rep.count("vector_requests"); w.mem().vec_search_with_embedding_acl(&word, &qv, 50, 80, None, Some(&ctx), mode).map(|x| (x.hits.iter().map(|h| h.frame_id).collect(), x.context.clone(), x.total_hits)) }
                    2 => { w.rep.count("vector_requests"); w.mem().search_adaptive_acl(&word, &qv, memvid_core::types::adaptive::AdaptiveConfig::default(), 80, None, Some(&ctx), mode).map(|x| (x.results.iter().map(|h| h.frame_id).collect(), String::new(), x.results.len())) }
                    _ => {
                        w.rep.count("ask_requests");
                        // plain word, a natural-language question, or one of the comparative / temporal phrasings that ask()
                        // answers from the timeline instead of the search hits
                        let other = w.rng.pick(query::VOCAB).to_string();
                        let question = match w.rng.below(8) {
                            0 | 1 => word.clone(),
                            2 => format!("what do we know about {word}"),
                            3 => format!("compare {word} versus {other}"),
                            4 => format!("how did {word} change over time"),
                            5 => format!("what is the history of {word} and {other}"),
                            6 => format!("are there any changes to {word} that reverted"),
                            _ => format!("difference between {word} and {other} before and after"),
                        };
                        w.rep.count(if question == word { "ask_plain_word" } else { "ask_phrased_questions" });
                        let ar = memvid_core::types::AskRequest { question, top_k: 20, snippet_chars: 80, uri: None, scope: None, cursor: None, start: None, end: None, context_only: true, mode: memvid_core::types::AskMode::Lex, as_of_frame: None, as_of_ts: None, adaptive: None, acl_context: Some(ctx.clone()), acl_enforcement_mode: mode };
                        w.mem().ask(ar, None::<&NoEmbedder>).map(|x| {
                            let mut ids: Vec<u64> = x.retrieval.hits.iter().map(|h| h.frame_id).collect();
                            ids.extend(x.citations.iter().map(|c| c.frame_id));
                            ids.extend(x.context_fragments.iter().map(|c| c.frame_id));
                            (ids, format!("{} {}", x.retrieval.context, x.answer.unwrap_or_default()), x.retrieval.total_hits)
                        })
                    }
                };
                let ename = ["search", "vec_search_with_embedding_acl", "search_adaptive_acl", "ask"][entry as usize];
                if mode_enforce {
                    w.rep.count("enforce_requests");
                    match exposed {
                        Err(_) if !tenant_ok => w.rep.count("enforce_without_tenant_rejected"),
                        Ok(_) if !tenant_ok => { w.violation(&format!("C12:enforce-without-tenant-accepted:{ename}"), "Enforce mode without a tenant id returned a result".into()); break; }
                        Err(e) => {
                            // a request that fails exposes nothing; a question whose words form an invalid query (operators such as
                            // "and" at the end) is counted, not judged
                            if matches!(e, MemvidError::VecNotEnabled | MemvidError::LexNotEnabled) { continue; }
                            if matches!(e, MemvidError::InvalidQuery { .. }) { w.rep.count("requests_rejected_as_invalid_query"); continue; }
                            w.violation(&format!("C12:enforce-request-failed:{ename}"), e.to_string());
                            break;
                        }
                        Ok((ids, context, _)) => {
                            w.rep.add("hits_checked", ids.len() as u64);
                            if let Some(leak) = ids.iter().find(|id| denied.contains(id)) {
                                let m = &metas[*leak as usize];
                                w.violation(&format!("C12:denied-frame-returned:{ename}"), format!("frame {leak} with ACL metadata {m:?} is denied to {ctx:?} but was returned"));
                                break;
                            }
                            // the text handed back (context / answer) must not contain a denied document's unique word
                            let lower = context.to_lowercase();
                            w.rep.count("context_strings_scanned");
                            if let Some(leak) = denied.iter().find(|id| (**id as usize) < docs && lower.contains(&uniq(**id as usize))) {
                                let m = &metas[*leak as usize];
                                w.violation(&format!("C12:denied-text-in-context:{ename}"), format!("the unique word of frame {leak} (ACL metadata {m:?}, denied to {ctx:?}) occurs in the returned context"));
                                break;
                            }
                        }
                    }
                } else {
                    w.rep.count("audit_requests");
                    // Audit returns the same hits as no ACL context at all
                    if entry == 0 {
                        let mut plain = request(&word, 50);
                        plain.no_sketch = true;
                        let a = w.mem().search(plain).map(|x| x.hits.iter().map(|h| (h.frame_id, h.range)).collect::<Vec<_>>());
                        let mut r = request(&word, 50);
                        r.no_sketch = true;
                        r.acl_context = Some(ctx.clone());
                        let b = w.mem().search(r).map(|x| x.hits.iter().map(|h| (h.frame_id, h.range)).collect::<Vec<_>>());
                        if let (Ok(a), Ok(b)) = (a, b) {
                            if a != b { w.violation("C12:audit-changes-hits:search", format!("{} hits without context, {} in Audit mode", a.len(), b.len())); break; }
                        }
                    }
                }
            }
        }
        let fp = h64(serde_json::to_string(&w.log.iter().rev().take(4).collect::<Vec<_>>()).unwrap_or_default().as_bytes());
        if w.rep.samples.len() < 2 { let s: Vec<Value> = w.log.iter().filter(|o| o["op"] == "acl-request").take(2).cloned().collect(); w.rep.sample(json!({"documents": docs, "requests": s})); }
        w.mem = None;
        rep.nontrivial(fp);
        rep.count("corpora");
        let _ = std::fs::remove_dir_all(&dir);
    }
}

pub struct NoEmbedder;
impl memvid_core::types::VecEmbedder for NoEmbedder {
    fn embed_query(&self, _text: &str) -> memvid_core::Result<Vec<f32>> { Ok(vec![0.0; 4]) }
    fn embedding_dimension(&self) -> usize { 4 }
}
