//! C17(b) — one writer process of the two-process scheduler (engine E6).
//!
//! `mvdrive c17worker --path FILE --name A` reads one step per stdin line and answers one JSON line
//! per step on stdout (flushed), so that an external scheduler decides the interleaving of two such
//! processes: create | open | put | commit | vacuum | drop | list | exit.

use std::io::{BufRead, Write};

use memvid_core::Memvid;
use memvid_core::types::PutOptions;
use serde_json::json;

pub fn main(args: &crate::Args) {
    let path = std::path::PathBuf::from(args.str("path").unwrap_or("mem.mv2"));
    let name = args.str("name").unwrap_or("A").to_string();
    let mut mem: Option<Memvid> = None;
    let mut n = 0u64;
    let stdin = std::io::stdin();
    let mut out = std::io::stdout();
    for line in stdin.lock().lines() {
        let Ok(line) = line else { break };
        let step = line.trim().to_string();
        if step.is_empty() { continue; }
        let reply = match step.as_str() {
            "create" => match Memvid::create(&path) { Ok(m) => { mem = Some(m); json!({"ok": true}) } Err(e) => json!({"ok": false, "err": e.to_string()}) },
            "open" => match Memvid::open(&path) { Ok(m) => { mem = Some(m); json!({"ok": true}) } Err(e) => json!({"ok": false, "err": e.to_string(), "kind": super::hist::err_kind(&e)}) },
            "put" => match mem.as_mut() {
                Some(m) => {
                    n += 1;
                    let uri = format!("mv2://c17/{name}-{n}");
                    let mut o = PutOptions::default();
                    o.uri = Some(uri.clone());
                    o.timestamp = Some(1_700_000_000 + n as i64);
                    match m.put_bytes_with_options(format!("document {name} number {n} zorvex").as_bytes(), o) { Ok(_) => json!({"ok": true, "uri": uri}), Err(e) => json!({"ok": false, "err": e.to_string()}) }
                }
                None => json!({"ok": false, "err": "no handle"}),
            },
            "commit" => match mem.as_mut() { Some(m) => match m.commit() { Ok(()) => json!({"ok": true}), Err(e) => json!({"ok": false, "err": e.to_string()}) }, None => json!({"ok": false, "err": "no handle"}) },
            "vacuum" => match mem.as_mut() { Some(m) => match m.vacuum() { Ok(()) => json!({"ok": true}), Err(e) => json!({"ok": false, "err": e.to_string()}) }, None => json!({"ok": false, "err": "no handle"}) },
            "drop" => { mem = None; json!({"ok": true}) }
            "list" => match mem.as_mut() {
                Some(m) => {
                    let c = m.frame_count() as u64;
                    let uris: Vec<String> = (0..c).filter_map(|i| m.frame_by_id(i).ok()).filter_map(|f| f.uri).collect();
                    json!({"ok": true, "uris": uris})
                }
                None => json!({"ok": false, "err": "no handle"}),
            },
            "exit" => { let _ = writeln!(out, "{}", json!({"step": "exit", "ok": true})); let _ = out.flush(); break; }
            other => json!({"ok": false, "err": format!("unknown step {other}")}),
        };
        let mut r = reply;
        r["step"] = json!(step);
        let _ = writeln!(out, "{}", r);
        let _ = out.flush();
    }
}
