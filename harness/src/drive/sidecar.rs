//! C19 (second sentence): create/open refuse to run next to a forbidden sidecar file.

use std::path::Path;

use memvid_core::{Memvid, MemvidError};
use serde_json::json;

use crate::{Report, Rng, h64};

fn listing(dir: &Path) -> Vec<String> {
    let mut v: Vec<String> = std::fs::read_dir(dir).map(|rd| rd.filter_map(|e| e.ok()).map(|e| e.file_name().to_string_lossy().to_string()).collect()).unwrap_or_default();
    v.sort();
    v
}

pub fn run(rep: &mut Report, scratch: &Path, rng: &mut Rng, rounds: u64) {
    rep.require("refusals_checked");
    for round in 0..rounds {
        let dir = scratch.join(format!("sc{round}"));
        let _ = std::fs::create_dir_all(&dir);
        let name = format!("{}.mv2", rng.pick(&["m", "Memory File", "a.b", "x-wal"]));
        let path = dir.join(&name);
        // a valid committed memory to open
        {
            let Ok(mut mem) = Memvid::create(&path) else { rep.inconclusive(json!({"reason": "create failed"})); continue };
            let _ = mem.put_bytes(b"sidecar probe document");
            let _ = mem.commit();
        }
        let before = std::fs::read(&path).unwrap_or_default();
        let sidecars: Vec<String> = ["-wal", "-shm", "-lock", "-journal"].iter().map(|s| format!("{name}{s}"))
            .chain([".wal", ".shm", ".lock", ".journal"].iter().map(|s| format!(".{name}{s}"))).collect();
        for sc in &sidecars {
            let scp = dir.join(sc);
            let content = rng.bytes(rng.clone().usize(0, 32));
            std::fs::write(&scp, &content).unwrap();
            let expected_listing = listing(&dir);
            for api in ["open", "open_read_only", "create"] {
                rep.eval();
                let res = match api {
                    "open" => Memvid::open(&path).map(|_| ()),
                    "open_read_only" => Memvid::open_read_only(&path).map(|_| ()),
                    _ => Memvid::create(&path).map(|_| ()),
                };
                let detail = json!({"mode": "sidecar", "file": name, "sidecar": sc, "api": api});
                match res {
                    Err(MemvidError::AuxiliaryFileDetected { .. }) => {
                        rep.count("refusals_checked");
                        rep.nontrivial(h64(format!("{sc}{api}").as_bytes()));
                    }
                    Err(e) => rep.violation(&format!("C19:sidecar:wrong-error:{api}"), format!("{api} next to {sc} failed with {e}, not AuxiliaryFileDetected"), detail.clone()),
                    Ok(()) => rep.violation(&format!("C19:sidecar:not-refused:{api}"), format!("{api} succeeded although {sc} exists"), detail.clone()),
                }
                if listing(&dir) != expected_listing {
                    rep.violation(&format!("C19:sidecar:directory-changed:{api}"), format!("{api} next to {sc} changed the directory to {:?}", listing(&dir)), detail.clone());
                }
                if std::fs::read(&path).unwrap_or_default() != before {
                    rep.violation(&format!("C19:sidecar:memory-file-changed:{api}"), format!("refused {api} modified the memory file"), detail.clone());
                }
                if std::fs::read(&scp).unwrap_or_default() != content {
                    rep.violation(&format!("C19:sidecar:sidecar-changed:{api}"), format!("refused {api} modified the sidecar file"), detail);
                }
            }
            let _ = std::fs::remove_file(&scp);
        }
        if round == 0 { rep.sample(json!({"file": name, "sidecars": sidecars})); }
        let _ = std::fs::remove_dir_all(&dir);
    }
}
