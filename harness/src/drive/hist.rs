//! Random operation histories (engine E1) with the online monitors for C01, C06, C07, C17(a), C19.
//!
//! A history is a list of JSON operations. The generator looks at the model to pick the next
//! operation; the executor interprets one JSON operation against the real memory and the model.
//! Replay feeds a recorded list to the same executor (payload bytes are regenerated from the
//! recorded generator state, so the log stays small).

use std::collections::BTreeMap;

use fs2::FileExt;
use memvid_core::types::{DoctorOptions, FrameRole, FrameStatus, PutManyOpts};
use memvid_core::{Memvid, MemvidError};
use serde_json::{Value, json};

use super::world::{Pending, PutSpec, UpdateSpec, World};
use crate::pure::text::rand_document;
use crate::{Report, Rng, h64};

pub const WORDS: &[&str] = &[
    "zorvex", "quillon", "brimtal", "dask", "ferrox", "lumen", "novak", "ostrel", "pyxis", "rundle", "tavrin", "ulmex",
    "vexil", "yarrow", "system", "memory", "running", "quickly", "files", "network",
];

pub fn text_of(rng: &mut Rng, chars: usize, token: &str) -> String {
    let mut s = String::new();
    let mut placed = false;
    while s.chars().count() < chars {
        if !placed && (s.len() > chars / 3 || chars < 40) {
            s.push_str(token);
            s.push(' ');
            placed = true;
        }
        let n = rng.usize(3, 12);
        for i in 0..n {
            s.push_str(rng.pick(WORDS));
            s.push_str(if i + 1 == n { "" } else { " " });
        }
        s.push_str(rng.pick(&[". ", ". ", "! ", "?\n", ".\n", "; "]));
    }
    if !placed {
        s.push_str(token);
    }
    s
}

const UNI_WORDS: &[&str] = &["café", "naïve", "Éléonore", "straße", "漢字", "données", "señor", "😀", "Ωmega", "coöperate", "façade", "Zoë"];

/// Like `text_of`, with multi-byte words: a few near the start (so that character offsets and byte offsets
/// diverge early and stay apart for the rest of the text) and, in half of the texts, some more sprinkled later.
pub fn text_of_unicode(rng: &mut Rng, chars: usize, token: &str) -> String {
    let mut s = String::new();
    for _ in 0..rng.usize(1, 6) {
        s.push_str(rng.pick(UNI_WORDS));
        s.push(' ');
    }
    let sprinkle = rng.chance(1, 2);
    let mut placed = false;
    while s.chars().count() < chars {
        if !placed && s.chars().count() > chars / 3 {
            s.push_str(token);
            s.push(' ');
            placed = true;
        }
        let n = rng.usize(3, 12);
        for i in 0..n {
            if sprinkle && rng.chance(1, 30) { s.push_str(rng.pick(UNI_WORDS)); } else { s.push_str(rng.pick(WORDS)); }
            s.push_str(if i + 1 == n { "" } else { " " });
        }
        s.push_str(rng.pick(&[". ", ". ", "! ", "?\n", ".\n", "; "]));
    }
    if !placed {
        s.push(' ');
        s.push_str(token);
    }
    s
}

/// Payload classes of DESIGN §2/E1. `class` (when given) forces the class; the bytes are a pure
/// function of (generator state, token, class).
pub fn gen_payload(rng: &mut Rng, token: &str, small_only: bool) -> (Vec<u8>, &'static str) {
    let roll = rng.below(if small_only { 60 } else { 100 });
    match roll {
        0..=2 => (Vec::new(), "empty"),
        3..=6 => { let n = rng.usize(1, 3); (rng.bytes(n), "tiny-binary") }
        7..=14 => { let n = rng.usize(4, 900); let mut b = rng.bytes(n); b[0] = 0xFF; (b, "small-binary") }
        15..=19 => { let n = rng.usize(1, 4000); (vec![0u8; n], "zero-filled") }
        20..=44 => { let n = rng.usize(10, 900); (text_of(rng, n, token).into_bytes(), "text-small") }
        45..=49 => { let n = rng.usize(2380, 2420); (text_of(rng, n, token).into_bytes(), "text-threshold") }
        50..=52 => { let n = rng.usize(2380, 2420); (text_of_unicode(rng, n, token).into_bytes(), "text-threshold-unicode") }
        53..=59 => { let n = rng.usize(1000, 2300); (text_of(rng, n, token).into_bytes(), "text-medium") }
        60..=64 => { let n = rng.usize(2600, 9000); (text_of(rng, n, token).into_bytes(), "text-large") }
        65..=69 => { let n = rng.usize(2600, 9000); (text_of_unicode(rng, n, token).into_bytes(), "text-large-unicode") }
        70..=75 => { let n = rng.usize(2600, 7000); let mut t = rand_document(rng, n, true); t.push_str(token); (t.into_bytes(), "text-structured") }
        76..=83 => { let n = rng.usize(9_000, 22_000); let mut b = rng.bytes(n); b[0] = 0xFF; (b, "binary-16k") }
        84..=86 => { let n = rng.usize(40_000, 90_000); let mut b = rng.bytes(n); b[0] = 0xFF; (b, "binary-over-wal") }
        87..=91 => {
            let n = rng.usize(200, 4000);
            let mut b = text_of(rng, n, token).into_bytes();
            let at = rng.usize(0, b.len() - 1);
            b[at] = 0xFF;
            (b, "text-non-utf8")
        }
        _ => {
            let n = rng.usize(15_900, 16_400);
            let mut b = rng.bytes(n);
            b[0] = 0xFE;
            (b, "binary-quarter-wal")
        }
    }
}

pub struct HistCfg {
    pub ops: usize,
    pub monitors: Vec<String>,
    pub small_only: bool,
    pub with_embeddings: bool,
    pub maintenance: bool,
    pub ts_mode: u64,
    pub check_every: u64,
}

impl HistCfg {
    pub fn on(&self, m: &str) -> bool {
        self.monitors.iter().any(|x| x == m)
    }
}

pub fn err_kind(e: &MemvidError) -> String {
    let s = format!("{e:?}");
    s.split(|c: char| !c.is_alphanumeric()).next().unwrap_or("").to_string()
}

fn strs(v: &Value, k: &str) -> Vec<String> {
    v.get(k).and_then(Value::as_array).map(|a| a.iter().filter_map(|x| x.as_str().map(str::to_string)).collect()).unwrap_or_default()
}
fn ostr(v: &Value, k: &str) -> Option<String> {
    v.get(k).and_then(Value::as_str).map(str::to_string)
}
fn floats(v: &Value, k: &str) -> Option<Vec<f32>> {
    v.get(k).and_then(Value::as_array).map(|a| a.iter().filter_map(|x| x.as_f64().map(|f| f as f32)).collect())
}

/// Rebuild a PutSpec from its JSON form (payload regenerated from the recorded generator state).
pub fn put_from_json(v: &Value) -> PutSpec {
    let token = ostr(v, "token").unwrap_or_default();
    let mut g = Rng(v.get("gen").and_then(Value::as_u64).unwrap_or(0));
    let (payload, class) = match v.get("text").and_then(Value::as_str) {
        Some(t) => (t.as_bytes().to_vec(), "literal-text"),
        None if v.get("bin_len").is_some() => {
            let n = v["bin_len"].as_u64().unwrap_or(1) as usize;
            let mut b = g.bytes(n.max(1));
            b[0] = 0xFF;
            (b, "literal-binary")
        }
        None => gen_payload(&mut g, &token, v.get("small").and_then(Value::as_bool).unwrap_or(false)),
    };
    let extra: BTreeMap<String, String> = v.get("extra").and_then(Value::as_object).map(|m| m.iter().map(|(k, x)| (k.clone(), x.as_str().unwrap_or("").to_string())).collect()).unwrap_or_default();
    PutSpec {
        payload,
        uri: ostr(v, "uri"),
        title: ostr(v, "title"),
        track: ostr(v, "track"),
        kind: ostr(v, "kind"),
        tags: strs(v, "tags"),
        labels: strs(v, "labels"),
        extra,
        timestamp: v.get("ts").and_then(Value::as_i64).unwrap_or(0),
        role: match v.get("role").and_then(Value::as_str) { Some("ExtractedImage") => FrameRole::ExtractedImage, Some("DocumentChunk") => FrameRole::DocumentChunk, _ => FrameRole::Document },
        parent_id: v.get("parent").and_then(Value::as_u64),
        embedding: floats(v, "emb"),
        chunk_embeddings: v.get("chunk_embs").and_then(Value::as_array).map(|a| a.iter().map(|e| e.as_array().map(|x| x.iter().filter_map(|f| f.as_f64().map(|f| f as f32)).collect()).unwrap_or_default()).collect()),
        instant_index: v.get("instant").and_then(Value::as_bool).unwrap_or(false),
        token,
        class,
        extract_triplets: v.get("triplets").and_then(Value::as_bool).unwrap_or(true),
        enable_embedding: v.get("enable_embedding").and_then(Value::as_bool).unwrap_or(false),
    }
}

impl<'a> World<'a> {
    pub fn op_create(&mut self) -> bool {
        match Memvid::create(&self.path) {
            Ok(m) => {
                self.mem = Some(m);
                true
            }
            Err(e) => {
                self.rep.inconclusive(json!({"reason": format!("create failed: {e}")}));
                self.failed = true;
                false
            }
        }
    }

    pub fn op_put(&mut self, spec: PutSpec) -> bool {
        let predicted = self.mem().next_frame_id();
        let opts = spec.options();
        let res = if let Some(ce) = &spec.chunk_embeddings {
            self.mem().put_with_chunk_embeddings(&spec.payload, spec.embedding.clone(), ce.clone(), opts)
        } else if let Some(e) = &spec.embedding {
            self.mem().put_with_embedding_and_options(&spec.payload, e.clone(), opts)
        } else {
            self.mem().put_bytes_with_options(&spec.payload, opts)
        };
        match res {
            Ok(_) => {
                self.rep.count("puts_acknowledged");
                self.rep.count(&format!("put_class[{}]", spec.class));
                self.model.pending.push(Pending::Put { spec, predicted_id: predicted });
                true
            }
            Err(e) => {
                self.rep.count(&format!("put_errors[{}]", err_kind(&e)));
                self.note(json!({"result": format!("Err({e})")}));
                // A failed put is not acknowledged. Whether it left anything behind is judged by sync.
                if !self.sync("after failed put") { return false; }
                true
            }
        }
    }

    pub fn op_update(&mut self, spec: UpdateSpec) -> bool {
        if self.has_pending_op_on(spec.target) {
            if !self.second_op_on_uncommitted_target { self.second_op_kind = format!("{}-then-update", self.pending_op_kind_on(spec.target).unwrap_or("op")); }
            self.second_op_on_uncommitted_target = true;
            self.rep.count("second_ops_on_uncommitted_target");
        }
        let predicted = self.mem().next_frame_id();
        let mut o = memvid_core::PutOptions::default();
        o.title = spec.title.clone();
        o.tags = spec.tags.clone();
        match self.mem().update_frame(spec.target, spec.payload.clone(), o, spec.embedding.clone()) {
            Ok(_) => {
                self.rep.count("updates_acknowledged");
                self.rep.count(if spec.payload.is_some() { "updates_with_payload" } else { "updates_without_payload" });
                self.model.pending.push(Pending::Update { spec, predicted_id: predicted });
                true
            }
            Err(e) => {
                self.rep.count(&format!("update_errors[{}]", err_kind(&e)));
                self.note(json!({"result": format!("Err({e})")}));
                true
            }
        }
    }

    pub fn op_delete(&mut self, target: u64) -> bool {
        if self.has_pending_op_on(target) {
            if !self.second_op_on_uncommitted_target { self.second_op_kind = format!("{}-then-delete", self.pending_op_kind_on(target).unwrap_or("op")); }
            self.second_op_on_uncommitted_target = true;
            self.rep.count("second_ops_on_uncommitted_target");
        }
        match self.mem().delete_frame(target) {
            Ok(_) => {
                self.rep.count("deletes_acknowledged");
                self.model.pending.push(Pending::Delete { target });
                true
            }
            Err(e) => {
                self.rep.count(&format!("delete_errors[{}]", err_kind(&e)));
                self.note(json!({"result": format!("Err({e})")}));
                true
            }
        }
    }

    pub fn op_commit(&mut self) -> bool {
        match self.mem().commit() {
            Ok(()) => {
                self.rep.count("commits");
                if !self.sync("after commit") { return false; }
                if !self.model.pending.is_empty() {
                    self.violation("C01:commit-left-operations-invisible", "commit returned Ok but acknowledged operations are still not visible".into());
                    return false;
                }
                true
            }
            Err(e) => {
                self.rep.count(&format!("commit_errors[{}]", err_kind(&e)));
                self.violation(&format!("C01:commit-failed:{}", err_kind(&e)), format!("commit of acknowledged operations failed: {e}"));
                false
            }
        }
    }

    /// Drop the handle (possibly dirty) and open the path again.
    pub fn op_reopen(&mut self) -> bool {
        let dirty = !self.model.pending.is_empty();
        let grown = self.mem.as_ref().is_some_and(|m| memvid_core::verif_hooks::handle_state(m)[6] > 65_536);
        self.mem = None;
        self.batch = false;
        match Memvid::open(&self.path) {
            Ok(m) => {
                self.mem = Some(m);
                self.rep.count("reopens");
                if dirty { self.rep.count("reopens_with_pending_records"); }
                if !self.sync("after reopen") { return false; }
                if !self.model.pending.is_empty() {
                    self.violation("C01:reopen-lost-acknowledged-operations", format!("after drop and reopen {} acknowledged operation(s) are not visible", self.model.pending.len()));
                    return false;
                }
                true
            }
            Err(e) => {
                // the second-op class is its own diagnosis (added by violation()); otherwise say
                // whether records were pending and whether the log had grown
                let ctx = if self.second_op_on_uncommitted_target { String::new() } else { format!(":{}{}", if dirty { "with-pending-records" } else { "clean" }, if grown { ":after-wal-growth" } else { "" }) };
                self.violation(&format!("C01:reopen-failed:{}{ctx}", err_kind(&e)), format!("open after drop failed: {e}"));
                false
            }
        }
    }

    /// A process crash between two operations followed by a restart: the file as it is on disk now (acknowledged
    /// operations still in the log) is what the next open finds. The copy is taken while the handle lives, the
    /// handle is dropped (its drop-time commit goes to the old inode and is discarded) and the copy is put in place.
    /// Unlike `op_reopen` this makes `Memvid::open` replay the log.
    pub fn op_crash_reopen(&mut self) -> bool {
        let dirty = !self.model.pending.is_empty();
        let image = self.path.with_extension("crashimg");
        if let Err(e) = std::fs::copy(&self.path, &image) {
            self.rep.inconclusive(json!({"reason": format!("cannot copy the file for a crash image: {e}")}));
            return true;
        }
        self.mem = None;
        self.batch = false;
        if let Err(e) = std::fs::rename(&image, &self.path) {
            self.rep.inconclusive(json!({"reason": format!("cannot put the crash image in place: {e}")}));
            self.failed = true;
            return false;
        }
        match Memvid::open(&self.path) {
            Ok(m) => {
                self.mem = Some(m);
                self.rep.count("crash_reopens");
                if dirty { self.rep.count("crash_reopens_replaying_the_log"); }
                if !self.sync("after crash + reopen") { return false; }
                if !self.model.pending.is_empty() {
                    self.violation("C01:replay-lost-acknowledged-operations", format!("after a crash image was reopened {} acknowledged operation(s) are not visible", self.model.pending.len()));
                    return false;
                }
                true
            }
            Err(e) => {
                let ctx = if self.second_op_on_uncommitted_target { String::new() } else { format!(":{}", if dirty { "with-pending-records" } else { "clean" }) };
                self.violation(&format!("C01:open-of-crash-image-failed:{}{ctx}", err_kind(&e)), format!("open of the on-disk state between two operations failed: {e}"));
                false
            }
        }
    }

    pub fn op_vacuum(&mut self) -> bool {
        match self.mem().vacuum() {
            Ok(()) => { self.rep.count("vacuums"); self.sync("after vacuum") }
            Err(e) => { self.violation(&format!("C42:vacuum-failed:{}", err_kind(&e)), format!("vacuum failed: {e}")); false }
        }
    }

    pub fn op_doctor(&mut self, opts: DoctorOptions) -> bool {
        // doctor needs the lock: close first. Un-committed records must survive it as well.
        self.mem = None;
        self.batch = false;
        let res = std::panic::catch_unwind(std::panic::AssertUnwindSafe(|| Memvid::doctor(&self.path, opts)));
        match res {
            Err(_) => { self.violation("C21:doctor-panicked", "doctor panicked on a healthy file".into()); return false; }
            Ok(Err(e)) => { self.violation(&format!("C21:doctor-failed-on-healthy-file:{}", err_kind(&e)), format!("doctor failed: {e}")); return false; }
            Ok(Ok(_)) => self.rep.count("doctor_runs"),
        }
        match Memvid::open(&self.path) {
            Ok(m) => { self.mem = Some(m); }
            Err(e) => { self.violation(&format!("C21:open-after-doctor-failed:{}", err_kind(&e)), format!("open after doctor failed: {e}")); return false; }
        }
        if !self.sync("after doctor") { return false; }
        if !self.model.pending.is_empty() {
            self.violation("C21:doctor-lost-acknowledged-operations", "acknowledged operations not visible after doctor + open".into());
            return false;
        }
        true
    }

    // ------------------------------------------------------------------ monitors after each call

    pub fn monitor_dir(&mut self, ctx: &str) -> bool {
        let name = self.path.file_name().unwrap().to_string_lossy().to_string();
        let l = self.listing();
        self.rep.count("dir_listings_checked");
        if l != vec![name.clone()] {
            let extra: Vec<&String> = l.iter().filter(|n| **n != name).collect();
            let cls = if extra.iter().any(|n| n.starts_with('.')) { "dot-temp-file" } else { "sidecar" };
            self.violation(&format!("C19:extra-file-after-call:{cls}"), format!("{ctx}: directory holds {l:?}"));
            return false;
        }
        true
    }

    /// While a writable handle lives, a second exclusive flock on the path must be refused.
    pub fn monitor_lock(&mut self, ctx: &str) -> bool {
        if self.mem.is_none() { return true; }
        let f = match std::fs::OpenOptions::new().read(true).write(true).open(&self.path) {
            Ok(f) => f,
            Err(_) => return true,
        };
        self.rep.count("lock_probes");
        match f.try_lock_exclusive() {
            Ok(()) => {
                let _ = FileExt::unlock(&f);
                let phase = if self.commits_done > 0 { "after-staged-commit" } else { "before-any-commit" };
                self.violation(&format!("C17:lock-lost:{phase}"), format!("{ctx}: a second exclusive flock on the path succeeded while the writable handle is alive"));
                false
            }
            Err(_) => true,
        }
    }
}

fn rand_embedding(rng: &mut Rng, dim: usize) -> Vec<f32> {
    (0..dim).map(|_| ((rng.f32_unit() * 2.0 - 1.0) * 1000.0).round() / 1000.0).collect()
}

/// Random put as a JSON operation.
pub fn gen_put(w: &mut World<'_>, cfg: &HistCfg) -> Value {
    let token = w.next_token();
    let n = w.counter;
    let gen_state = w.rng.next();
    let uri = if w.rng.chance(4, 5) { Some(format!("mv2://{}/Doc{}", w.rng.pick(&["docs", "Notes", "x"]), n)) } else { None };
    let ts = match cfg.ts_mode {
        0 => 1_700_000_000 + n as i64 * 10,
        _ => match w.rng.below(8) { 0 => -5, 1 => 0, 2 => i64::MAX, 3 => i64::MIN, 4 => 1_700_000_000, _ => 1_600_000_000 + w.rng.range(-500, 500) },
    };
    let emb = if cfg.with_embeddings && w.rng.chance(1, 2) { Some(rand_embedding(&mut w.rng, 4)) } else { None };
    let mut extra = serde_json::Map::new();
    if w.rng.chance(1, 3) { extra.insert("k".to_string(), json!(format!("v{n}"))); }
    json!({
        "op": "put", "gen": gen_state, "small": cfg.small_only, "token": token, "uri": uri, "ts": ts,
        "title": if w.rng.chance(1, 2) { Some(format!("Title {n}")) } else { None },
        "track": if w.rng.chance(1, 3) { Some(w.rng.pick(&["main", "side"])) } else { None },
        "kind": if w.rng.chance(1, 4) { Some("note") } else { None },
        "tags": if w.rng.chance(1, 3) { vec![format!("tag{}", n % 3)] } else { vec![] },
        "labels": if w.rng.chance(1, 4) { vec!["lbl"] } else { vec![] },
        "extra": extra, "emb": emb, "instant": w.rng.chance(1, 4),
    })
}

fn gen_op(w: &mut World<'_>, cfg: &HistCfg) -> Value {
    let roll = w.rng.below(100);
    let all_active: Vec<u64> = w.model.frames.iter().filter(|f| f.status == FrameStatus::Active && !f.is_chunk).map(|f| f.id).collect();
    // mostly target frames without an un-committed update/delete; 1 pick in 25 may hit one
    let clean: Vec<u64> = all_active.iter().copied().filter(|id| !w.has_pending_op_on(*id)).collect();
    let active = if w.rng.chance(1, 25) { all_active } else { clean };
    if roll < 50 || active.is_empty() && roll < 80 {
        gen_put(w, cfg)
    } else if roll < 60 {
        let target = w.rng.pick(&active);
        let token = w.next_token();
        let with_payload = w.rng.chance(1, 2);
        json!({"op": "update", "target": target, "gen": if with_payload { Some(w.rng.next()) } else { None }, "token": token,
               "title": if w.rng.chance(1, 2) { Some(format!("Upd {token}")) } else { None }})
    } else if roll < 67 {
        json!({"op": "delete", "target": w.rng.pick(&active)})
    } else if roll < 70 {
        let bogus = w.model.frames.len() as u64 + 5 + w.rng.below(5);
        let inactive: Vec<u64> = w.model.frames.iter().filter(|f| f.status != FrameStatus::Active).map(|f| f.id).collect();
        let t = if !inactive.is_empty() && w.rng.chance(1, 2) { w.rng.pick(&inactive) } else { bogus };
        json!({"op": if w.rng.chance(1, 2) { "delete-invalid" } else { "update-invalid" }, "target": t})
    } else if roll < 82 {
        json!({"op": "commit"})
    } else if roll < 88 {
        json!({"op": "reopen"})
    } else if roll < 92 {
        // batch mode defers the per-record fsync: a copy of the file is then not a faithful crash image
        if w.batch { json!({"op": "reopen"}) } else { json!({"op": "crash-reopen"}) }
    } else if roll < 95 && cfg.maintenance {
        json!({"op": "vacuum"})
    } else if roll < 98 && cfg.maintenance {
        json!({"op": "doctor", "time": w.rng.chance(1, 2), "lex": w.rng.chance(1, 2), "vec": w.rng.chance(1, 2), "vacuum": w.rng.chance(1, 3)})
    } else if !w.batch {
        json!({"op": "begin_batch", "skip_sync": w.rng.chance(1, 2), "no_auto_checkpoint": w.rng.chance(1, 2), "level": w.rng.pick(&[0, 1, 3])})
    } else {
        json!({"op": "end_batch"})
    }
}

/// Execute one JSON operation; false = stop this history.
pub fn exec_op(w: &mut World<'_>, cfg: &HistCfg, op: &Value) -> bool {
    let name = op.get("op").and_then(Value::as_str).unwrap_or("").to_string();
    let mut logged = op.clone();
    if name == "put" || name == "update" {
        if let Some(m) = w.mem.as_ref() { logged["next_frame_id"] = json!(m.next_frame_id()); }
    }
    w.log.push(logged);
    let ok = match name.as_str() {
        "create" => w.op_create(),
        "put" => {
            let spec = put_from_json(op);
            if let Ok(p) = std::env::var("MVDRIVE_DUMP_PUT") { let _ = std::fs::write(p, &spec.payload); }
            w.note(json!({"class": spec.class, "len": spec.payload.len()}));
            w.op_put(spec)
        }
        "update" => {
            let token = ostr(op, "token").unwrap_or_default();
            let payload = op.get("gen").and_then(Value::as_u64).map(|g| gen_payload(&mut Rng(g), &token, true).0);
            w.op_update(UpdateSpec { target: op["target"].as_u64().unwrap_or(0), payload, title: ostr(op, "title"), tags: strs(op, "tags"), embedding: floats(op, "emb"), token })
        }
        "delete" => w.op_delete(op["target"].as_u64().unwrap_or(0)),
        "delete-invalid" | "update-invalid" => {
            let t = op["target"].as_u64().unwrap_or(0);
            let accepted = if name == "delete-invalid" { w.mem().delete_frame(t).is_ok() } else { w.mem().update_frame(t, None, memvid_core::PutOptions::default(), None).is_ok() };
            w.rep.count("invalid_target_calls");
            if accepted {
                w.violation("C01:invalid-target-accepted", format!("delete/update of missing or inactive frame {t} was acknowledged"));
            }
            !accepted
        }
        "commit" => { let r = w.op_commit(); if r { w.commits_done += 1; } r }
        "reopen" => w.op_reopen(),
        "crash-reopen" => w.op_crash_reopen(),
        "vacuum" => { let r = w.op_commit(); if r { w.commits_done += 1; } r && w.op_vacuum() }
        "doctor" => {
            let b = |k: &str| op.get(k).and_then(Value::as_bool).unwrap_or(false);
            let o = DoctorOptions { rebuild_time_index: b("time"), rebuild_lex_index: b("lex"), rebuild_vec_index: b("vec"), vacuum: b("vacuum"), dry_run: false, quiet: true };
            let r = w.op_commit();
            if r { w.commits_done += 1; }
            r && w.op_doctor(o)
        }
        "begin_batch" => {
            let mut o = PutManyOpts::default();
            o.skip_sync = op.get("skip_sync").and_then(Value::as_bool).unwrap_or(false);
            o.disable_auto_checkpoint = op.get("no_auto_checkpoint").and_then(Value::as_bool).unwrap_or(true);
            o.compression_level = op.get("level").and_then(Value::as_i64).unwrap_or(3) as i32;
            o.wal_pre_size_bytes = op.get("pre_size").and_then(Value::as_u64).unwrap_or(0);
            let r = w.mem().begin_batch(o).is_ok();
            w.batch = r;
            r
        }
        "end_batch" => { w.batch = false; w.mem().end_batch().is_ok() }
        "commit_skip_indexes" => match w.mem().commit_skip_indexes() {
            Ok(()) => { w.rep.count("commit_skip_indexes"); true }
            Err(e) => { w.violation(&format!("C40:commit-skip-indexes-failed:{}", err_kind(&e)), e.to_string()); false }
        },
        "finalize_indexes" => match w.mem().finalize_indexes() {
            Ok(()) => { w.rep.count("finalize_indexes"); true }
            Err(e) => { w.violation(&format!("C40:finalize-indexes-failed:{}", err_kind(&e)), e.to_string()); false }
        },
        "check" => w.check_all("explicit check", true),
        other => { w.rep.inconclusive(json!({"reason": format!("unknown op {other}")})); false }
    };
    if !ok || w.failed { return false; }
    if w.mem.is_some() {
        if cfg.on("c19") && !w.monitor_dir(&format!("after {name}")) { return false; }
        if cfg.on("c17") && !w.monitor_lock(&format!("after {name}")) { return false; }
        if !w.sync(&format!("after {name}")) { return false; }
        let st = memvid_core::verif_hooks::handle_state(w.mem.as_ref().unwrap());
        if st[6] > 65_536 { w.saw_growth = true; }
    }
    true
}

fn finish_history(w: &mut World<'_>) {
    if w.failed { return; }
    // end of history: commit, compare, reopen (rw and ro), compare
    if w.batch { let _ = w.mem().end_batch(); w.batch = false; }
    w.log.push(json!({"op": "final: commit, compare, reopen, compare, open_read_only, compare"}));
    let _ = w.op_commit() && w.check_all("final, before close", true) && w.op_reopen() && w.check_all("final, after reopen", true);
    if !w.failed {
        w.mem = None;
        match Memvid::open_read_only(&w.path) {
            Ok(m) => { w.mem = Some(m); let _ = w.check_all("final, read-only handle", true); }
            Err(e) => w.violation(&format!("C01:open-read-only-failed:{}", err_kind(&e)), format!("open_read_only failed on a committed file: {e}")),
        }
    }
}

/// The four ways two operations can meet on one frame before a commit (update/delete x update/delete), each as its own
/// tiny history: put A, put B, commit, first op on A, second op on A, commit, compare, reopen, compare. Random histories
/// reach these combinations rarely; which of them misbehave on the unchanged tree is recorded per combination.
pub fn second_op_matrix(rep: &mut Report, dir: &std::path::Path, mut rng: Rng, cfg: &HistCfg) {
    for (first, second) in [("update", "update"), ("update", "delete"), ("delete", "update"), ("delete", "delete")] {
        for with_payload in [false, true] {
            let d = dir.join(format!("m-{first}-{second}-{with_payload}"));
            let _ = std::fs::create_dir_all(&d);
            let mut w = World::new(&d, "mem.mv2", rng.fork(), rep);
            w.rep.eval();
            let mk = |w: &mut World<'_>, kind: &str, with_payload: bool| -> Value {
                if kind == "delete" { json!({"op": "delete", "target": 0}) } else {
                    let token = w.next_token();
                    json!({"op": "update", "target": 0, "gen": if with_payload { Some(w.rng.next()) } else { None }, "token": token, "title": "second-op matrix"})
                }
            };
            let mut ok = exec_op(&mut w, cfg, &json!({"op": "create"}));
            for i in 0..2 {
                if !ok { break; }
                let token = w.next_token();
                ok = exec_op(&mut w, cfg, &json!({"op": "put", "text": format!("matrix document {i} {token} zorvex"), "token": token, "uri": format!("mv2://matrix/Doc{i}"), "ts": 1_700_000_000 + i as i64}));
            }
            ok = ok && exec_op(&mut w, cfg, &json!({"op": "commit"}));
            if ok {
                let a = mk(&mut w, first, with_payload);
                ok = exec_op(&mut w, cfg, &a);
                let b = mk(&mut w, second, with_payload);
                // the second call may be refused (that is fine); if it is acknowledged it has to take effect
                ok = ok && exec_op(&mut w, cfg, &b);
                w.rep.count(&format!("second_op_matrix[{first}-then-{second}]"));
            }
            if ok { finish_history(&mut w); }
            w.mem = None;
            let _ = std::fs::remove_dir_all(&d);
        }
    }
}

/// A history with multi-megabyte payloads: the log has to grow (by doubling) several times while megabytes of
/// committed data sit behind it, and commit has to copy / move tens of megabytes. Code that works in fixed-size
/// blocks (the 8 MiB shift buffer of log growth, the staging copy) sees more than one block only here.
pub fn run_big_history(rep: &mut Report, dir: &std::path::Path, rng: Rng, cfg: &HistCfg) -> u64 {
    let mut w = World::new(dir, "mem.mv2", rng, rep);
    if exec_op(&mut w, cfg, &json!({"op": "create"})) {
        let n = w.rng.usize(4, 6);
        for i in 0..n {
            if w.failed { break; }
            w.rep.eval();
            let token = w.next_token();
            let big = if i + 1 == n { w.rng.usize(8_400_000, 9_500_000) } else { w.rng.usize(2_500_000, 5_500_000) };
            let c = w.counter;
            let put = json!({"op": "put", "gen": w.rng.next(), "bin_len": big, "token": token, "uri": format!("mv2://big/Doc{c}"), "ts": 1_700_000_000 + c as i64, "instant": false});
            if !exec_op(&mut w, cfg, &put) { break; }
            w.rep.count("multi_megabyte_puts");
            if w.rng.chance(1, 2) {
                let t2 = w.next_token();
                let small = json!({"op": "put", "gen": w.rng.next(), "small": true, "token": t2, "uri": format!("mv2://big/S{c}"), "ts": 1_700_000_000 + c as i64});
                if !exec_op(&mut w, cfg, &small) { break; }
            }
            let follow = match w.rng.below(4) { 0 => "reopen", 1 | 2 => "commit", _ => "none" };
            if follow != "none" && !exec_op(&mut w, cfg, &json!({"op": follow})) { break; }
            if follow == "reopen" && !w.check_all("after reopen", true) { break; }
        }
        finish_history(&mut w);
    }
    if w.saw_growth { w.rep.count("histories_with_wal_growth"); }
    let fp = h64(serde_json::to_string(&w.log).unwrap_or_default().as_bytes());
    if w.rep.samples.len() < 2 {
        let head: Vec<Value> = w.log.iter().take(10).cloned().collect();
        w.rep.sample(json!({"big_history_head": head, "ops": w.log.len(), "frames": w.model.frames.len()}));
    }
    w.mem = None;
    let _ = std::fs::remove_file(&w.path);
    fp
}

/// One random history; returns the op log fingerprint.
pub fn run_history(rep: &mut Report, dir: &std::path::Path, rng: Rng, cfg: &HistCfg) -> u64 {
    let mut w = World::new(dir, "mem.mv2", rng, rep);
    if exec_op(&mut w, cfg, &json!({"op": "create"})) {
        for i in 0..cfg.ops {
            w.rep.eval();
            let op = gen_op(&mut w, cfg);
            if !exec_op(&mut w, cfg, &op) { break; }
            if (i as u64 + 1) % cfg.check_every == 0 && !w.check_all("periodic check", cfg.on("c07")) { break; }
        }
        finish_history(&mut w);
    }
    if w.saw_growth { w.rep.count("histories_with_wal_growth"); }
    let fp = h64(serde_json::to_string(&w.log).unwrap_or_default().as_bytes());
    if w.rep.samples.len() < 2 {
        let head: Vec<Value> = w.log.iter().take(8).cloned().collect();
        w.rep.sample(json!({"history_head": head, "ops": w.log.len(), "frames": w.model.frames.len()}));
    }
    w.mem = None;
    let _ = std::fs::remove_file(&w.path);
    fp
}

/// Replay a recorded history (list of JSON operations) through the same executor.
pub fn replay_history(rep: &mut Report, dir: &std::path::Path, ops: &[Value], cfg: &HistCfg, after: &dyn Fn(&mut World<'_>, &str) -> bool) {
    let mut w = World::new(dir, "mem.mv2", Rng::new(0), rep);
    for op in ops {
        let name = op.get("op").and_then(Value::as_str).unwrap_or("").to_string();
        if name.starts_with("final") || name.is_empty() { continue; }
        w.rep.eval();
        if !exec_op(&mut w, cfg, op) { break; }
        if w.mem.is_some() && !w.check_all("replay check", cfg.on("c07")) { break; }
        if w.mem.is_some() && !after(&mut w, &name) { break; }
    }
    finish_history(&mut w);
    w.mem = None;
    if std::env::var("MVDRIVE_KEEP").is_err() {
        let _ = std::fs::remove_file(&w.path);
    }
}
