//! Pure-function monitors: C05, C27(a), C30–C39. Also the Miri target.
//! usage: mvpure <monitor> --seed N --cases N --out report.json [--scratch dir] [--replay file]

use std::path::PathBuf;

use mvverif::pure::{codecs, misc, num, query, text, wal};
use mvverif::{Args, Report, Rng};
use serde_json::Value;

fn main() {
    let args = Args::parse();
    let monitor = args.pos.first().cloned().unwrap_or_default();
    let seed = args.u64("seed", 1);
    let cases = args.u64("cases", 1000);
    let out = args.str("out").map(str::to_string);
    let scratch = PathBuf::from(args.str("scratch").unwrap_or("."));
    let mut rng = Rng::new(seed);
    // panics inside the code under test are caught and judged by the monitors; keep stderr quiet
    std::panic::set_hook(Box::new(|_| {}));

    if monitor == "c32deep" {
        let kind = args.str("kind").unwrap_or("paren").to_string();
        let depth = args.u64("depth", 1000) as usize;
        std::process::exit(query::deep(&kind, depth));
    }

    if monitor == "c34dump" {
        let text = std::fs::read_to_string(args.str("file").unwrap_or("/dev/null")).unwrap_or_default();
        if let Some((_, ranges, chunks)) = memvid_core::verif_hooks::plan_text_chunks(&text) {
            for (r, c) in ranges.iter().zip(chunks.iter()) {
                println!("=== {r:?}\n{c}");
            }
        }
        return;
    }

    let replay: Option<Value> = args
        .str("replay")
        .and_then(|p| std::fs::read_to_string(p).ok())
        .and_then(|s| serde_json::from_str(&s).ok());

    let mut rep = match monitor.as_str() {
        "c05sys" => {
            let mut r = Report::new("C05", "wal-systematic", seed, "breadth-first over append(boundary sizes)/checkpoint/pending_records/records_after/reopen/reopen-read-only/stats sequences on small regions; a case is one executed sequence; distinct = distinct (cursor state, region bytes, header checkpoint, model) states reached");
            let depth = args.u64("depth", 5) as usize;
            let regions: Vec<u64> = args.str("regions").unwrap_or("96,100,144,150,200,256,512").split(',').filter_map(|s| s.parse().ok()).collect();
            r.require("scans_with_pending");
            r.require("checkpoints");
            r.require("append_rejected_full");
            wal::systematic(&mut r, &scratch, &regions, depth, args.u64("max-states", 4000) as usize);
            r
        }
        "c05rand" => {
            let mut r = Report::new("C05", "wal-random", seed, "random histories of append/checkpoint/scan/reopen on 64 KiB and 1 MiB regions with sizes biased to land the head 0..60 bytes before the region end; distinct = distinct log states");
            r.require("scans_with_pending");
            r.require("ops_at_tail<48");
            let hist = args.u64("histories", 8) as usize;
            wal::random(&mut r, &scratch, &mut rng, 65_536, hist, cases as usize);
            wal::random(&mut r, &scratch, &mut rng, 1 << 20, (hist / 4).max(1), cases as usize);
            wal::random(&mut r, &scratch, &mut rng, 4096, hist, cases as usize);
            r
        }
        "c05replay" => {
            let mut r = Report::new("C05", "wal-replay", seed, "replay of one recorded history");
            if let Some(v) = &replay { wal::replay(&mut r, &scratch, v.get("history").unwrap_or(v)); }
            r
        }
        "c30" => { let mut r = Report::new("C30", "codecs", seed, "random valid headers/footers/TOCs/time-index lists round-tripped, then one mutation of a field the property names; distinct = distinct encodings"); codecs::c30(&mut r, &mut rng, cases); r }
        "c31" => { let mut r = Report::new("C31", "footer-scan", seed, "random byte strings rich in magic prefixes with 0-4 planted valid / wrong-hash / oversized / zero-length / overlapping / truncated footers, compared with a naive downward scan; distinct = distinct inputs"); codecs::c31(&mut r, &mut rng, cases); r }
        "c31replay" => { let mut r = Report::new("C31", "footer-replay", seed, "replay"); if let Some(v) = &replay { codecs::replay_c31(&mut r, v); } r }
        "c32" => { let mut r = Report::new("C32", "query", seed, "random token soup for totality; random ASTs printed with minimal or full parentheses and evaluated by the crate vs an independent reference on random frames; distinct = distinct query texts"); query::c32(&mut r, &mut rng, cases); r }
        "c33" => { let mut r = Report::new("C33", "normalize", seed, "random strings from a Unicode pool (combining marks, ZWJ emoji, CR/LF/TAB, NBSP and other White_Space, compatibility forms, controls) x limits 0..64 and usize::MAX; distinct = distinct (output, limit)"); text::c33(&mut r, &mut rng, cases); r }
        "c34" => { let mut r = Report::new("C34", "chunk-plan", seed, "random texts of 100..12000 chars with sentences, line breaks, unbreakable runs, tables and code fences; distinct = distinct texts that produced a plan"); text::c34(&mut r, &mut rng, cases); r }
        "c35" => { let mut r = Report::new("C35", "snippets", seed, "random Unicode texts x occurrence lists (sorted/unsorted, overlapping, out of bounds up to usize::MAX) x windows x max; distinct = distinct (slices, text length)"); text::c35(&mut r, &mut rng, cases); r }
        "c36" => { let mut r = Report::new("C36", "pii", seed, "strings assembled from PII-like fragments and filler; distinct = distinct masked outputs of inputs with detected PII"); text::c36(&mut r, &mut rng, cases); r }
        "c37" => { let mut r = Report::new("C37", "adaptive", seed, "random score lists x every strategy x random parameters; distinct = distinct (scores, cutoff, strategy)"); num::c37(&mut r, &mut rng, cases); r }
        "c38" => { let mut r = Report::new("C38", "simd", seed, "vector pairs of every length 0..100 in one magnitude class each, compared with an f64 scalar reference; distinct = distinct (length, result bits)"); num::c38(&mut r, &mut rng, cases); r }
        "c39" => { let mut r = Report::new("C39", "sketch", seed, "random texts: every sketch token must pass the term filter; random sketch tracks (dense, sparse, out-of-order ids) written and read back; distinct = distinct sketches"); misc::c39(&mut r, &mut rng, cases); r }
        "c27a" => { let mut r = Report::new("C27", "cards-temporal", seed, "random card sets over 3 entities x 3 slots with ties, retractions and missing dates, queried at random times; distinct = distinct card sets"); misc::c27a(&mut r, &mut rng, cases); r }
        "replay" => {
            // generic single-input replay for the text/num monitors
            let mut r = Report::new(args.str("property").unwrap_or("?"), "replay", seed, "replay of one recorded input");
            if let Some(v) = &replay { replay_one(&mut r, v); }
            r
        }
        other => {
            eprintln!("unknown monitor {other}");
            std::process::exit(2);
        }
    };
    if let Some(c) = args.str("under") { rep.monitor = format!("{}@{c}", rep.monitor); }
    rep.finish(out.as_deref());
}

fn replay_one(r: &mut Report, v: &Value) {
    r.eval();
    let mode = v.get("mode").and_then(Value::as_str).unwrap_or("");
    let s = |k: &str| v.get(k).and_then(Value::as_str).unwrap_or("").to_string();
    let u = |k: &str| v.get(k).and_then(Value::as_u64).unwrap_or(0) as usize;
    let bad: Vec<(String, String)> = match mode {
        "c33" => text::check_normalized(&s("input"), u("limit")),
        "c34" => text::check_chunk_plan(&s("text")).1,
        "c35" => {
            let occ: Vec<(usize, usize)> = v.get("occurrences").and_then(Value::as_array).map(|a| a.iter().filter_map(|p| Some((p.get(0)?.as_u64()? as usize, p.get(1)?.as_u64()? as usize))).collect()).unwrap_or_default();
            text::check_snippets(&s("text"), &occ, u("window"), u("max"))
        }
        "c36" => text::check_pii(&s("input")),
        _ => Vec::new(),
    };
    for (k, w) in bad { r.violation(&k, w, v.clone()); }
}
