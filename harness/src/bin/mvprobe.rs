fn main() {
    mvverif::probe::main();
}
