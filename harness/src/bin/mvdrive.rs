fn main() {
    mvverif::drive::main();
}
