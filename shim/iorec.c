/* iorec.so — LD_PRELOAD file-I/O recorder and clock shifter for the memvid verification harness.
 *
 * Recorder (engine E2): every mutating file-system call on files under $IOREC_DIR is appended to
 * the binary log $IOREC_LOG as a length-prefixed record, in program order, together with markers
 * written by the harness through iorec_mark(). Files are identified by (st_dev, st_ino); write
 * offsets are taken with lseek(fd, 0, SEEK_CUR) before the call (memvid uses seek + write).
 * copy_file_range / sendfile are logged as writes with the bytes read back from the destination.
 * mmap(PROT_WRITE, MAP_SHARED) on a watched file is logged as UNSUPPORTED (the run becomes
 * inconclusive: stores through a mapping cannot be observed).
 *
 * Clock shifter (C23): if $IOREC_TIME_OFFSET is set, time(), gettimeofday() and clock_gettime
 * (CLOCK_REALTIME*) are shifted by that many seconds, so hidden uses of "now" show up as a
 * difference between two otherwise identical executions. With $IOREC_TIME_FIXED the wall clock
 * stands still at that epoch second (monotonic clocks are untouched), which separates clock
 * dependence from other sources of non-determinism.
 *
 * Record: u32 total_len | u8 kind | u64 dev | u64 ino | i64 a | i64 b | u32 name_len | name |
 *         u32 data_len | data          (little endian, total_len counts everything after itself)
 */
#define _GNU_SOURCE
#include <dlfcn.h>
#include <errno.h>
#include <fcntl.h>
#include <limits.h>
#include <pthread.h>
#include <stdarg.h>
#include <stdint.h>
#include <stdio.h>
#include <stdlib.h>
#include <string.h>
#include <sys/mman.h>
#include <sys/stat.h>
#include <sys/time.h>
#include <sys/types.h>
#include <sys/uio.h>
#include <time.h>
#include <unistd.h>

enum { K_OPEN = 1, K_WRITE = 2, K_TRUNC = 3, K_FSYNC = 4, K_RENAME = 5, K_UNLINK = 6, K_MARK = 7,
       K_UNSUPPORTED = 8, K_CLOSE = 9, K_LINK = 10, K_FLOCK = 11, K_DIRSYNC = 12 };

static int log_fd = -1;
static char watch_dir[PATH_MAX];
static size_t watch_len = 0;
static long time_offset = 0;
static long time_fixed = 0; /* IOREC_TIME_FIXED: the wall clock stands still at this epoch second */
static int inited = 0;
static pthread_mutex_t mu = PTHREAD_MUTEX_INITIALIZER;
static __thread int inside = 0;

#define REAL(name) static __typeof__(name) *real_##name; if (!real_##name) real_##name = dlsym(RTLD_NEXT, #name)

static void init(void) {
    if (inited) return;
    inited = 1;
    const char *d = getenv("IOREC_DIR");
    const char *l = getenv("IOREC_LOG");
    const char *t = getenv("IOREC_TIME_OFFSET");
    if (t) time_offset = atol(t);
    const char *tf = getenv("IOREC_TIME_FIXED");
    if (tf) time_fixed = atol(tf);
    if (d && l) {
        if (realpath(d, watch_dir)) watch_len = strlen(watch_dir);
        REAL(open);
        log_fd = real_open(l, O_WRONLY | O_CREAT | O_APPEND | O_CLOEXEC, 0644);
    }
}

static void emit(uint8_t kind, uint64_t dev, uint64_t ino, int64_t a, int64_t b, const char *name, const void *data, uint32_t dlen) {
    if (log_fd < 0) return;
    uint32_t nlen = name ? (uint32_t)strlen(name) : 0;
    uint32_t total = 1 + 8 + 8 + 8 + 8 + 4 + nlen + 4 + dlen;
    size_t sz = 4 + (size_t)total;
    unsigned char *buf = malloc(sz);
    if (!buf) return;
    unsigned char *p = buf;
    memcpy(p, &total, 4); p += 4;
    *p++ = kind;
    memcpy(p, &dev, 8); p += 8;
    memcpy(p, &ino, 8); p += 8;
    memcpy(p, &a, 8); p += 8;
    memcpy(p, &b, 8); p += 8;
    memcpy(p, &nlen, 4); p += 4;
    if (nlen) { memcpy(p, name, nlen); p += nlen; }
    memcpy(p, &dlen, 4); p += 4;
    if (dlen) memcpy(p, data, dlen);
    REAL(write);
    pthread_mutex_lock(&mu);
    size_t off = 0;
    while (off < sz) { ssize_t n = real_write(log_fd, buf + off, sz - off); if (n <= 0) break; off += (size_t)n; }
    pthread_mutex_unlock(&mu);
    free(buf);
}

/* is the path (already absolute or relative to cwd) under the watched directory? */
static int watched_path(const char *path, char *out) {
    if (!watch_len || !path) return 0;
    char tmp[PATH_MAX];
    if (path[0] != '/') {
        if (!getcwd(tmp, sizeof tmp)) return 0;
        size_t l = strlen(tmp);
        snprintf(tmp + l, sizeof tmp - l, "/%s", path);
    } else {
        snprintf(tmp, sizeof tmp, "%s", path);
    }
    /* resolve the directory part only (the file may not exist yet) */
    char dirpart[PATH_MAX];
    snprintf(dirpart, sizeof dirpart, "%s", tmp);
    char *slash = strrchr(dirpart, '/');
    if (!slash) return 0;
    *slash = 0;
    char rdir[PATH_MAX];
    if (!realpath(dirpart[0] ? dirpart : "/", rdir)) return 0;
    if (strncmp(rdir, watch_dir, watch_len) != 0 || (rdir[watch_len] != 0 && rdir[watch_len] != '/')) return 0;
    if (out) snprintf(out, PATH_MAX, "%s/%s", rdir, slash + 1);
    return 1;
}

static int watched_fd(int fd, struct stat *st, char *name) {
    if (!watch_len || fd < 0 || fd == log_fd) return 0;
    char link[64], path[PATH_MAX];
    snprintf(link, sizeof link, "/proc/self/fd/%d", fd);
    ssize_t n = readlink(link, path, sizeof path - 1);
    if (n <= 0) return 0;
    path[n] = 0;
    /* deleted files keep their old path + " (deleted)" */
    if (strncmp(path, watch_dir, watch_len) != 0 || (path[watch_len] != '/' && path[watch_len] != 0)) return 0;
    if (fstat(fd, st) != 0) return 0;
    if (name) snprintf(name, PATH_MAX, "%s", path);
    return 1;
}

void iorec_mark(const char *text) {
    init();
    emit(K_MARK, 0, 0, 0, 0, text, NULL, 0);
}

/* ------------------------------------------------------------------ open family */
static void note_open(int fd, const char *path, int flags) {
    struct stat st;
    char name[PATH_MAX];
    if (fd >= 0 && watched_fd(fd, &st, name)) {
        emit(K_OPEN, st.st_dev, st.st_ino, flags, (int64_t)st.st_size, name, NULL, 0);
        if (flags & O_TRUNC) emit(K_TRUNC, st.st_dev, st.st_ino, 0, 0, name, NULL, 0);
    }
    (void)path;
}

int open(const char *path, int flags, ...) {
    init();
    mode_t mode = 0;
    if (flags & (O_CREAT | O_TMPFILE)) { va_list ap; va_start(ap, flags); mode = va_arg(ap, mode_t); va_end(ap); }
    REAL(open);
    int fd = real_open(path, flags, mode);
    if (!inside) { inside = 1; note_open(fd, path, flags); inside = 0; }
    return fd;
}
int open64(const char *path, int flags, ...) {
    init();
    mode_t mode = 0;
    if (flags & (O_CREAT | O_TMPFILE)) { va_list ap; va_start(ap, flags); mode = va_arg(ap, mode_t); va_end(ap); }
    REAL(open64);
    int fd = real_open64(path, flags, mode);
    if (!inside) { inside = 1; note_open(fd, path, flags); inside = 0; }
    return fd;
}
int openat(int dirfd, const char *path, int flags, ...) {
    init();
    mode_t mode = 0;
    if (flags & (O_CREAT | O_TMPFILE)) { va_list ap; va_start(ap, flags); mode = va_arg(ap, mode_t); va_end(ap); }
    REAL(openat);
    int fd = real_openat(dirfd, path, flags, mode);
    if (!inside) { inside = 1; note_open(fd, path, flags); inside = 0; }
    return fd;
}
int openat64(int dirfd, const char *path, int flags, ...) {
    init();
    mode_t mode = 0;
    if (flags & (O_CREAT | O_TMPFILE)) { va_list ap; va_start(ap, flags); mode = va_arg(ap, mode_t); va_end(ap); }
    REAL(openat64);
    int fd = real_openat64(dirfd, path, flags, mode);
    if (!inside) { inside = 1; note_open(fd, path, flags); inside = 0; }
    return fd;
}
int creat(const char *path, mode_t mode) { return open(path, O_CREAT | O_WRONLY | O_TRUNC, mode); }

/* ------------------------------------------------------------------ data */
ssize_t write(int fd, const void *buf, size_t count) {
    init();
    REAL(write);
    struct stat st;
    char name[PATH_MAX];
    if (inside || !watched_fd(fd, &st, name)) return real_write(fd, buf, count);
    inside = 1;
    int fl = fcntl(fd, F_GETFL);
    off_t off = (fl >= 0 && (fl & O_APPEND)) ? st.st_size : lseek(fd, 0, SEEK_CUR);
    ssize_t n = real_write(fd, buf, count);
    if (n > 0) emit(K_WRITE, st.st_dev, st.st_ino, (int64_t)off, n, name, buf, (uint32_t)n);
    inside = 0;
    return n;
}
ssize_t pwrite(int fd, const void *buf, size_t count, off_t offset) {
    init();
    REAL(pwrite);
    struct stat st;
    char name[PATH_MAX];
    ssize_t n = real_pwrite(fd, buf, count, offset);
    if (!inside && n > 0 && watched_fd(fd, &st, name)) { inside = 1; emit(K_WRITE, st.st_dev, st.st_ino, (int64_t)offset, n, name, buf, (uint32_t)n); inside = 0; }
    return n;
}
ssize_t pwrite64(int fd, const void *buf, size_t count, off64_t offset) {
    init();
    REAL(pwrite64);
    struct stat st;
    char name[PATH_MAX];
    ssize_t n = real_pwrite64(fd, buf, count, offset);
    if (!inside && n > 0 && watched_fd(fd, &st, name)) { inside = 1; emit(K_WRITE, st.st_dev, st.st_ino, (int64_t)offset, n, name, buf, (uint32_t)n); inside = 0; }
    return n;
}
ssize_t writev(int fd, const struct iovec *iov, int iovcnt) {
    init();
    REAL(writev);
    struct stat st;
    char name[PATH_MAX];
    if (inside || !watched_fd(fd, &st, name)) return real_writev(fd, iov, iovcnt);
    inside = 1;
    off_t off = lseek(fd, 0, SEEK_CUR);
    ssize_t n = real_writev(fd, iov, iovcnt);
    if (n > 0) {
        unsigned char *tmp = malloc((size_t)n);
        if (tmp) {
            size_t done = 0;
            for (int i = 0; i < iovcnt && done < (size_t)n; i++) { size_t take = iov[i].iov_len; if (take > (size_t)n - done) take = (size_t)n - done; memcpy(tmp + done, iov[i].iov_base, take); done += take; }
            emit(K_WRITE, st.st_dev, st.st_ino, (int64_t)off, n, name, tmp, (uint32_t)n);
            free(tmp);
        }
    }
    inside = 0;
    return n;
}

static void log_copied(int fd_out, off_t start, ssize_t n) {
    struct stat st;
    char name[PATH_MAX];
    if (n <= 0 || !watched_fd(fd_out, &st, name)) return;
    REAL(pread);
    unsigned char *tmp = malloc((size_t)n);
    if (!tmp) return;
    ssize_t got = real_pread(fd_out, tmp, (size_t)n, start);
    if (got == n) emit(K_WRITE, st.st_dev, st.st_ino, (int64_t)start, n, name, tmp, (uint32_t)n);
    else emit(K_UNSUPPORTED, st.st_dev, st.st_ino, 0, 0, "copy read-back failed", NULL, 0);
    free(tmp);
}
ssize_t copy_file_range(int fd_in, off64_t *off_in, int fd_out, off64_t *off_out, size_t len, unsigned int flags) {
    init();
    REAL(copy_file_range);
    off_t start = off_out ? (off_t)*off_out : lseek(fd_out, 0, SEEK_CUR);
    ssize_t n = real_copy_file_range(fd_in, off_in, fd_out, off_out, len, flags);
    if (!inside && n > 0) { inside = 1; log_copied(fd_out, start, n); inside = 0; }
    return n;
}
ssize_t sendfile(int out_fd, int in_fd, off_t *offset, size_t count) {
    init();
    static ssize_t (*real_sendfile)(int, int, off_t *, size_t);
    if (!real_sendfile) real_sendfile = dlsym(RTLD_NEXT, "sendfile");
    off_t start = lseek(out_fd, 0, SEEK_CUR);
    ssize_t n = real_sendfile(out_fd, in_fd, offset, count);
    if (!inside && n > 0) { inside = 1; log_copied(out_fd, start, n); inside = 0; }
    return n;
}

int ftruncate(int fd, off_t length) {
    init();
    REAL(ftruncate);
    int r = real_ftruncate(fd, length);
    struct stat st;
    char name[PATH_MAX];
    if (!inside && r == 0 && watched_fd(fd, &st, name)) { inside = 1; emit(K_TRUNC, st.st_dev, st.st_ino, (int64_t)length, 0, name, NULL, 0); inside = 0; }
    return r;
}
int ftruncate64(int fd, off64_t length) {
    init();
    REAL(ftruncate64);
    int r = real_ftruncate64(fd, length);
    struct stat st;
    char name[PATH_MAX];
    if (!inside && r == 0 && watched_fd(fd, &st, name)) { inside = 1; emit(K_TRUNC, st.st_dev, st.st_ino, (int64_t)length, 0, name, NULL, 0); inside = 0; }
    return r;
}
int posix_fallocate(int fd, off_t offset, off_t len) {
    init();
    REAL(posix_fallocate);
    int r = real_posix_fallocate(fd, offset, len);
    struct stat st;
    char name[PATH_MAX];
    if (!inside && r == 0 && watched_fd(fd, &st, name)) { inside = 1; emit(K_TRUNC, st.st_dev, st.st_ino, (int64_t)st.st_size, 1, name, NULL, 0); inside = 0; }
    return r;
}

static void note_sync(int fd, int data_only) {
    struct stat st;
    char name[PATH_MAX];
    if (inside || !watched_fd(fd, &st, name)) return;
    inside = 1;
    emit(S_ISDIR(st.st_mode) ? K_DIRSYNC : K_FSYNC, st.st_dev, st.st_ino, data_only, 0, name, NULL, 0);
    inside = 0;
}
int fsync(int fd) { init(); REAL(fsync); int r = real_fsync(fd); if (r == 0) note_sync(fd, 0); return r; }
int fdatasync(int fd) { init(); REAL(fdatasync); int r = real_fdatasync(fd); if (r == 0) note_sync(fd, 1); return r; }

/* ------------------------------------------------------------------ names */
static void note_rename(const char *oldp, const char *newp) {
    char a[PATH_MAX], b[PATH_MAX];
    int wa = watched_path(oldp, a), wb = watched_path(newp, b);
    if (!wa && !wb) return;
    char both[2 * PATH_MAX + 2];
    snprintf(both, sizeof both, "%s\n%s", wa ? a : oldp, wb ? b : newp);
    emit(K_RENAME, 0, 0, wa, wb, both, NULL, 0);
}
int rename(const char *oldp, const char *newp) {
    init();
    REAL(rename);
    int r = real_rename(oldp, newp);
    if (!inside && r == 0) { inside = 1; note_rename(oldp, newp); inside = 0; }
    return r;
}
/* path relative to a directory fd -> absolute path (the directory is resolved through /proc) */
static const char *path_at(int dirfd, const char *path, char *buf) {
    if (!path || path[0] == '/' || dirfd == AT_FDCWD) return path;
    char link[64], dir[PATH_MAX];
    snprintf(link, sizeof link, "/proc/self/fd/%d", dirfd);
    ssize_t n = readlink(link, dir, sizeof dir - 1);
    if (n <= 0) return NULL;
    dir[n] = 0;
    snprintf(buf, PATH_MAX, "%s/%s", dir, path);
    return buf;
}
int renameat(int od, const char *oldp, int nd, const char *newp) {
    init();
    REAL(renameat);
    char a[PATH_MAX], b[PATH_MAX];
    const char *pa = inside ? NULL : path_at(od, oldp, a), *pb = inside ? NULL : path_at(nd, newp, b);
    int r = real_renameat(od, oldp, nd, newp);
    if (!inside && r == 0 && pa && pb) { inside = 1; note_rename(pa, pb); inside = 0; }
    else if (!inside && r == 0) { inside = 1; emit(K_UNSUPPORTED, 0, 0, 0, 0, "renameat: directory fd not resolvable", NULL, 0); inside = 0; }
    return r;
}
int renameat2(int od, const char *oldp, int nd, const char *newp, unsigned int flags) {
    init();
    static int (*real_renameat2)(int, const char *, int, const char *, unsigned int);
    if (!real_renameat2) real_renameat2 = dlsym(RTLD_NEXT, "renameat2");
    char a[PATH_MAX], b[PATH_MAX];
    const char *pa = inside ? NULL : path_at(od, oldp, a), *pb = inside ? NULL : path_at(nd, newp, b);
    int r = real_renameat2 ? real_renameat2(od, oldp, nd, newp, flags) : (errno = ENOSYS, -1);
    if (!inside && r == 0 && pa && pb && flags == 0) { inside = 1; note_rename(pa, pb); inside = 0; }
    else if (!inside && r == 0) { inside = 1; emit(K_UNSUPPORTED, 0, 0, 0, 0, "renameat2 with flags or unresolvable fds", NULL, 0); inside = 0; }
    return r;
}
int unlink(const char *path) {
    init();
    REAL(unlink);
    char a[PATH_MAX];
    int w = inside ? 0 : watched_path(path, a);
    int r = real_unlink(path);
    if (w && r == 0) { inside = 1; emit(K_UNLINK, 0, 0, 0, 0, a, NULL, 0); inside = 0; }
    return r;
}
int unlinkat(int dirfd, const char *path, int flags) {
    init();
    REAL(unlinkat);
    char a[PATH_MAX], abs[PATH_MAX];
    const char *p = inside ? NULL : path_at(dirfd, path, abs);
    int w = p ? watched_path(p, a) : 0;
    int r = real_unlinkat(dirfd, path, flags);
    if (w && r == 0) { inside = 1; emit(K_UNLINK, 0, 0, 0, 0, a, NULL, 0); inside = 0; }
    return r;
}
int link(const char *oldp, const char *newp) {
    init();
    REAL(link);
    int r = real_link(oldp, newp);
    char a[PATH_MAX], b[PATH_MAX];
    if (!inside && r == 0 && (watched_path(oldp, a) | watched_path(newp, b))) { inside = 1; char both[2 * PATH_MAX + 2]; snprintf(both, sizeof both, "%s\n%s", oldp, newp); emit(K_LINK, 0, 0, 0, 0, both, NULL, 0); inside = 0; }
    return r;
}
int linkat(int od, const char *oldp, int nd, const char *newp, int flags) {
    init();
    REAL(linkat);
    int r = real_linkat(od, oldp, nd, newp, flags);
    char b[PATH_MAX];
    if (!inside && r == 0 && nd == AT_FDCWD && watched_path(newp, b)) { inside = 1; char both[2 * PATH_MAX + 2]; snprintf(both, sizeof both, "%s\n%s", oldp, b); emit(K_LINK, 0, 0, od, 0, both, NULL, 0); inside = 0; }
    return r;
}

void *mmap(void *addr, size_t length, int prot, int flags, int fd, off_t offset) {
    init();
    REAL(mmap);
    struct stat st;
    char name[PATH_MAX];
    if (!inside && fd >= 0 && (prot & PROT_WRITE) && (flags & MAP_SHARED) && watched_fd(fd, &st, name)) { inside = 1; emit(K_UNSUPPORTED, st.st_dev, st.st_ino, 0, 0, "writable shared mapping", NULL, 0); inside = 0; }
    return real_mmap(addr, length, prot, flags, fd, offset);
}

int flock(int fd, int operation) {
    init();
    static int (*real_flock)(int, int);
    if (!real_flock) real_flock = dlsym(RTLD_NEXT, "flock");
    int r = real_flock(fd, operation);
    struct stat st;
    char name[PATH_MAX];
    if (!inside && watched_fd(fd, &st, name)) { inside = 1; emit(K_FLOCK, st.st_dev, st.st_ino, operation, r == 0 ? 0 : errno, name, NULL, 0); inside = 0; }
    return r;
}

int close(int fd) {
    init();
    REAL(close);
    struct stat st;
    char name[PATH_MAX];
    if (!inside && fd != log_fd && watched_fd(fd, &st, name)) { inside = 1; emit(K_CLOSE, st.st_dev, st.st_ino, 0, 0, name, NULL, 0); inside = 0; }
    return real_close(fd);
}

/* ------------------------------------------------------------------ clock */
time_t time(time_t *t) {
    init();
    REAL(time);
    time_t v = time_fixed ? (time_t)time_fixed : real_time(NULL) + time_offset;
    if (t) *t = v;
    return v;
}
int gettimeofday(struct timeval *tv, void *tz) {
    init();
    static int (*real_gtod)(struct timeval *, void *);
    if (!real_gtod) real_gtod = dlsym(RTLD_NEXT, "gettimeofday");
    int r = real_gtod(tv, tz);
    if (r == 0 && tv) { if (time_fixed) { tv->tv_sec = time_fixed; tv->tv_usec = 0; } else tv->tv_sec += time_offset; }
    return r;
}
int clock_gettime(clockid_t clk, struct timespec *ts) {
    init();
    REAL(clock_gettime);
    int r = real_clock_gettime(clk, ts);
    if (r == 0 && ts && (clk == CLOCK_REALTIME || clk == CLOCK_REALTIME_COARSE)) {
        if (time_fixed) { ts->tv_sec = time_fixed; ts->tv_nsec = 0; } else ts->tv_sec += time_offset;
    }
    return r;
}
